"""Per-property checks. Each returns an exit status and writes /verif/evidence/<ID>.json."""
import sys, os, json, time, subprocess, glob, re, shutil
import common
from common import VERIF, REPO, BUILD, NCPU, SEED, sh, harness_error, HarnessError

_SCRATCH = os.environ.get('VERIF_SCRATCH_OUT')   # set together with VERIF_REPO: keep evidence/replays of seed runs out of /verif/evidence
EVID = os.path.join(_SCRATCH, 'evidence') if _SCRATCH else os.path.join(VERIF, 'evidence')
REPLAYS = os.path.join(_SCRATCH, 'replays') if _SCRATCH else os.path.join(VERIF, 'replays')

# ----------------------------------------------------------------------------- reporting
class Report:
    def __init__(self, pid, tier):
        self.pid, self.tier, self.t0 = pid, tier, time.time()
        self.violations = []      # dicts: kind, key(optional known key), detail, replay(dict)
        self.known_hits = {}      # key -> count
        self.coverage = {}
        self.assumptions = []
        self.level = 'model_checking'
        self.known, self.instances = common.load_known()

    def add(self, v):
        key = v.get('known') or ''
        if key and (self.pid, key) in self.instances: key = self.instances[(self.pid, key)]
        if key and (self.pid, key) in self.known:
            self.known_hits[key] = self.known_hits.get(key, 0) + max(v.get('count', 1), 1)
        else:
            self.violations.append(v)

    def finish(self):
        os.makedirs(EVID, exist_ok=True)
        cov = self.coverage
        if isinstance(cov.get('samples'), list):   # evidence stays small: a sample that carries a long input is dropped, not truncated
            cov['samples'] = [x for x in cov['samples'] if len(json.dumps(x)) < 6000][:12] or [{'note': 'samples omitted (too large)'}]
        ev = {'property_id': self.pid, 'tier': self.tier, 'seed': SEED, 'level': self.level, 'coverage': cov,
              'assumptions': self.assumptions, 'wall_s': round(time.time() - self.t0, 2), 'violations': len(self.violations)}
        if self.known_hits: ev['known_findings_seen'] = self.known_hits
        with open(os.path.join(EVID, self.pid + '.json'), 'w') as f: json.dump(ev, f, indent=1, sort_keys=True)
        for key, n in sorted(self.known_hits.items()):
            print('KNOWN-FINDING: property=%s %s (key=%s, %d instances in this run)' % (self.pid, self.known[(self.pid, key)], key, n))
        if self.violations:
            os.makedirs(REPLAYS, exist_ok=True)
            shown = 0
            for v in self.violations:
                if shown >= 12: break
                path = os.path.join(REPLAYS, '%s-%d.json' % (self.pid, shown))
                with open(path, 'w') as f: json.dump(v, f, indent=1, sort_keys=True)
                print('VIOLATION property=%s replay=%s' % (self.pid, path))
                print('  ' + (v.get('kind', '') + ': ' + v.get('summary', ''))[:600])
                shown += 1
            if len(self.violations) > shown: print('  ... and %d more violating cases' % (len(self.violations) - shown))
            return 1
        print('OK property=%s tier=%s wall=%.1fs' % (self.pid, self.tier, time.time() - self.t0))
        return 0

# ----------------------------------------------------------------------------- E-GRAM checks
GRAM_PROPS = ('C01', 'C02', 'C05', 'C08', 'C09', 'C11', 'C16', 'C18')

def gram_passes(pid, tier):
    q = tier == 'quick'
    base = ['--props', pid]
    P = []
    if pid in ('C01', 'C02', 'C09', 'C11', 'C16', 'C06', 'C12'):
        P.append(('NT2 T2 R<=4 W<=5 L<=3, strings<=%d' % (4 if q else 5), base + ['--nt', '2', '--t', '2', '--err', '0', '--maxR', '4', '--maxlen', '4' if q else '5']))
        if pid in ('C01', 'C11', 'C02', 'C12'):
            P.append(('NT2 T2 R=5..6 with rules of length <=1 (W<=4), strings<=4', base + ['--nt', '2', '--t', '2', '--err', '0', '--minR', '5', '--maxR', '6', '--maxL', '1', '--maxlen', '4']))
        if pid in ('C01', 'C11', 'C12', 'C02', 'C09'):
            P.append(('NT2 T3 R<=3 W<=5, strings<=%d' % (3 if q else 4), base + ['--nt', '2', '--t', '3', '--err', '0', '--maxR', '3', '--maxlen', '3' if q else '4']))
        if pid == 'C12':
            P.append(('error-rule frames NT2 T2 R<=3 and NT2 T3 R<=2: construction with default limits (the error symbol is a lookahead too)', base + ['--nt', '2', '--err', '1', '--maxR', '3', '--maxlen', '0']))
        if pid == 'C06':
            P.append(('error-rule frames NT2 T2 R<=2 through the checked buffer (recovery paths)', base + ['--nt', '2', '--t', '2', '--err', '1', '--maxR', '2', '--maxlen', '4']))
        if pid == 'C11':
            P.append(('error-rule frames NT2 T2 R<=3 (conflicts on the error column)', base + ['--nt', '2', '--t', '2', '--err', '1', '--maxR', '3', '--maxlen', '0', '--with-prec', '--prec-levels', '2', '--rprec-max', '1']))
            P.append(('S/R and R/R grammars NT2 T2 R<=3 under every precedence/associativity assignment (both preferences; an R/R conflict stays a conflict whatever the precedences)', base + ['--nt', '2', '--t', '2', '--err', '0', '--maxR', '3', '--maxlen', '0', '--with-prec', '--prec-levels', '2', '--rprec-max', '1']))
        if pid in ('C09', 'C01'):
            P.append(('NT2 T2 R<=3 W<=%d, inputs<=%d over terminals + space, newline and a foreign byte' % (4 if q else 5, 4 if q else 5), base + ['--nt', '2', '--t', '2', '--err', '0', '--maxR', '3', '--maxW', '4' if q else '5', '--maxlen', '4' if q else '5', '--rich']))
        P.append(('seed grammars: witnesses of repaired defects, textbook shapes (LR(1)-not-LALR, kernel subset, expression grammar in all 24 rule orders, a 6-rule grammar in all 720 rule orders), each with all its one-symbol variants', base + ['--maxlen', '4', '--max-per-frame', '0', '--neighbours', '--seeds', os.path.join(VERIF, 'seeds', 'gram_seeds.txt')]))
        if not q:
            P.append(('NT3 T2 R<=4, strings<=4', base + ['--nt', '3', '--t', '2', '--err', '0', '--maxlen', '4']))
            P.append(('NT2 T2 R=5 W<=5 L<=2, strings<=4', base + ['--nt', '2', '--t', '2', '--err', '0', '--minR', '5', '--maxlen', '4']))
            P.append(('NT2 T3 R=4 W<=5, strings<=3', base + ['--nt', '2', '--t', '3', '--err', '0', '--minR', '4', '--maxlen', '3']))
    if pid == 'C16':
        P.append(('NT2 T2 R<=3 W<=4, inputs<=4 over terminals + space, newline and a foreign byte (positions in the trace, lexer trace lines)', base + ['--nt', '2', '--t', '2', '--err', '0', '--maxR', '2' if q else '3', '--maxW', '4', '--maxlen', '4', '--rich']))
        P.append(('error-rule frames NT2 T2, strings<=4 plus the runs a^40, a^40 b, b a^40 b (long discard runs in the trace)', base + ['--nt', '2', '--t', '2', '--err', '1', '--maxR', '2' if q else '3', '--maxlen', '4', '--long-words', '40']))
        P.append(('custom-lexer frames NT2 T2 R<=2 (with and without an error rule), inputs<=%d over {x,space,\\n}, every script of lexer answers: the verbose trace names exactly the terms the lexer delivered' % (3 if q else 4), base + ['--custom', '1', '--nt', '2', '--t', '2', '--err', '2', '--maxlen', '3' if q else '4', '--maxR', '2']))
    if pid == 'C08':
        P.append(('error-rule frames NT2 T2 R<=%d, strings<=%d' % (3 if q else 4, 4 if q else 8), base + ['--nt', '2', '--t', '2', '--err', '1', '--maxlen', '4' if q else '8', '--long-words', '40'] + (['--maxR', '3'] if q else [])))
        P.append(('error-rule frames NT2 T3, strings<=%d' % (4 if q else 6), base + ['--nt', '2', '--t', '3', '--err', '1', '--maxlen', '4' if q else '6']))
        P.append(('seed grammars', base + ['--maxlen', '5', '--max-per-frame', '0', '--seeds', os.path.join(VERIF, 'seeds', 'gram_seeds.txt')]))
    if pid == 'C18':
        P.append(('custom-lexer frames NT2 T2 (R<=2; with and without an error rule), inputs<=%d over {x,space,\\n}, every script of lexer answers' % (4 if q else 5), base + ['--custom', '1', '--nt', '2', '--t', '2', '--err', '2', '--maxlen', '4' if q else '5'] + (['--maxR', '2'] if q else [])))
        if not q: P.append(('custom-lexer frames NT2 T3 R<=2, inputs<=4', base + ['--custom', '1', '--nt', '2', '--t', '3', '--err', '2', '--maxlen', '4']))
    if pid == 'C05':
        P.append(('operator grammars NT1 T3 R<=3, all precedence/associativity assignments', base + ['--nt', '1', '--t', '3', '--err', '0', '--maxR', '3', '--maxW', '6' if q else '7', '--maxlen', '4' if q else '5', '--prec-levels', '2' if q else '3', '--rprec-max', '2' if q else '3'] + ([] if q else ['--prec-base', '-1'])))
        P.append(('NT2 T2 R<=%d' % (3 if q else 4), base + ['--nt', '2', '--t', '2', '--err', '0', '--maxR', '3' if q else '4', '--maxlen', '4', '--prec-levels', '2' if q else '3', '--rprec-max', '1' if q else '3'] + ([] if q else ['--prec-base', '-1'])))
    LIFT = 'lifted frames (61 unused terminals and/or 63 unused nonterminals declared in front, so that every symbol index, <eof>, error and the augmented root lie across the 64-bit word boundaries of the item-set and FIRST bitsets; also 125/62 around the 128 boundary): '
    if pid in ('C01', 'C02', 'C09', 'C11', 'C16'):
        P.append((LIFT + 'NT2 T2 R<=%d W<=%d, strings<=4' % (2 if q else 3, 4 if q else 5), base + ['--nt', '2', '--t', '2', '--err', '0', '--maxR', '2' if q else '3', '--maxlen', '4'], 'lift'))
        if pid in ('C01', 'C11') and not q: P.append((LIFT + 'NT2 T3 R<=2, strings<=3', base + ['--nt', '2', '--t', '3', '--err', '0', '--maxlen', '3'], 'lift'))
    if pid in ('C08', 'C16'):
        P.append((LIFT + 'error-rule frames NT2 T2 R<=2 and NT2 T3 R<=2, strings<=4', base + ['--nt', '2', '--err', '1', '--maxlen', '4'], 'lift'))
    if pid == 'C05':
        P.append((LIFT + 'operator grammars NT1 T3 R<=3 W<=%d, all precedence/associativity assignments' % (5 if q else 6), base + ['--nt', '1', '--t', '3', '--err', '0', '--maxR', '3', '--maxW', '5' if q else '6', '--maxlen', '4', '--prec-levels', '2' if q else '3', '--rprec-max', '1' if q else '2'], 'lift'))
    if pid == 'C05':
        P.append(('error-rule frames NT2 T2 R<=3 with shift/reduce conflicts, all precedence/associativity assignments (the error symbol is a term of precedence 0: it counts as a rule\'s last term)', base + ['--nt', '2', '--t', '2', '--err', '1', '--maxR', '3', '--maxlen', '4', '--prec-levels', '2', '--rprec-max', '1']))
        P.append(('error-rule frames NT1 T2 R<=2 W<=5 (rules ending in term error [N]), all precedence/associativity assignments', base + ['--nt', '1', '--t', '2', '--err', '1', '--maxlen', '4', '--prec-levels', '2', '--rprec-max', '1']))
    MED = 'medium-size frames (7-11 rules over 2-6 nonterminals and 2-4 terminals, empty rules, right sides up to 3): a fixed corpus of %d grammars per frame, evenly spread with a deterministic jitter over the frame\'s whole enumeration order; '
    if pid in ('C01', 'C02', 'C09', 'C11', 'C12', 'C16', 'C06'):
        P.append((MED % (20000 if q else 400000) + '6 frames, strings<=3', base + ['--err', '0', '--stride-count', '20000' if q else '400000', '--maxlen', '3'], 'big'))
    if pid in ('C08', 'C16', 'C11', 'C12'):
        P.append((MED % (20000 if q else 400000) + '2 frames with an error symbol, strings<=3', base + ['--err', '1', '--stride-count', '20000' if q else '400000', '--maxlen', '3'], 'big'))
    if pid == 'C05':
        P.append((MED % (100 if q else 3000) + 'operator frame NT2 T4 R7 under all precedence/associativity assignments of the conflicting terms, strings<=3', base + ['--err', '0', '--nt', '2', '--t', '4', '--stride-count', '100' if q else '3000', '--maxlen', '3', '--prec-levels', '2', '--rprec-max', '1'], 'big'))
    if pid in ('C01', 'C02', 'C05', 'C08', 'C09', 'C11', 'C16'):
        P.append(('realistic seed grammars (JSON, layered expression grammar with calls, 5-operator grammar with declared precedence, statements with error recovery), all one-symbol variants, strings<=3 over 8-11 terminals + every sentence of the seed up to %d tokens and its one-token deletions' % (7 if q else 8), base + ['--maxlen', '3', '--sentences', '7' if q else '8', '--neighbours', '--max-per-frame', '0', '--seeds', os.path.join(VERIF, 'seeds', 'gram_big_seeds.txt')], 'big'))
    if pid == 'C05' and not q:   # the largest space last: it takes whatever time is left and reports exhaustive=false when cut
        P.append(('operator grammars NT1 T3 R=4 W 6..8', base + ['--nt', '1', '--t', '3', '--err', '0', '--minR', '4', '--maxlen', '5', '--prec-levels', '3', '--rprec-max', '2']))
    return ('quick' if q else 'thorough'), P

GRAM_RULE = {
 'C01': 'Every grammar inside the bounds (all left-side and right-side symbol assignments for every arity vector; nothing symmetry-reduced) is injected into the real ctpg::parser; the real analyzer builds its table, which is compared state by state with a textbook canonical LR(1) automaton. For every grammar that is LR(1) by the reference and whose real write_diag_str shows no conflict line, every terminal string up to the length bound is parsed by the real parse() and the verdict compared with CFG membership (language fixpoint) and with the reference LR driver; when the real table differs from the reference the string bound is raised for that grammar to look for a string-level witness. Non-trivial = LR(1), diag-clean grammar that accepts >=1 and rejects >=1 explored string.',
 'C02': 'Same grammar x string space as C01, accepted inputs only. Functors log (rule, child value ids); term values carry (term index, lexeme offset, length). The returned value tree is compared with the derivation tree produced by the reference LR driver; every value must be produced once and consumed once, and the number of functor calls must equal the number of tree nodes. Non-trivial = accepted input of an LR(1) grammar with a non-empty tree.',
 'C05': 'Every grammar inside the bounds whose canonical LR(1) collection has a shift/reduce cell, crossed with every assignment of precedence level and associativity to each term that takes part in a conflict (and explicit [n] precedences, including a negative one, on each conflicting rule). The real table is compared cell by cell with the reference automaton resolved by the documented rule (including has_sr_conflict flags and untouched cells), then every string up to the bound is parsed and the grouping (functor tree) compared with the reference driver on the resolved table. Non-trivial = (grammar, assignment) pairs; outcomes = distinct trees.',
 'C08': 'Every grammar of the error-rule frames (one right-side position fixed to the error symbol, everything else enumerated) that is conflict-free by the reference (error treated as a terminal), crossed with every terminal string up to the bound. The real parse() is compared with the documented recovery procedure run on the reference table: result, value tree (kept values are kept), number/position/term of Syntax error reports. Non-trivial = grammar with an error rule that accepts >=1 and rejects >=1 string; outcomes classify runs by (recovered/failed, states popped, terms discarded).',
 'C09': 'Same grammar x string space as C01 (grammars without error rules). The captured error stream must be empty on success and otherwise exactly one line naming the first offending term and its [line:column] as given by the reference driver on the canonical table (for grammars with unproductive reachable symbols only the shape of the report is judged); a verbose re-run must not recognise any term after the report.',
 'C11': 'Every grammar inside the bounds (conflict-free, S/R, R/R, accept/reduce). The real write_diag_str text is split into rules, states, item lines and action lines and compared (1) with the dumped parse table the parser executes, (2) with the reference canonical LR(1) automaton matched state by state from state 0: conflict lines iff the reference has a conflict in that state on that term, rule named = rule of the conflicting completed item, side = documented preference. Non-trivial = grammars with at least one conflict or more than 2 states.',
 'C18': 'Frames whose terms are custom_term and whose lexer is a scripted use_lexer<>: for every conflict-free grammar of the frame bounds and every input over {x, space, newline} up to the bound, every script of lexer answers is explored depth-first (at each match() call every (index < T, 1 <= length <= remaining) pair and the default-constructed failure result; the parse is re-run per script, replaying the chosen prefix). Oracle: match() is called exactly at the term starts implied by the previous answers and default whitespace skipping, exactly as many times as the documented driver needs terms; result, value tree (lexeme slices), messages and their positions equal the documented driver (with recovery) run on the answered token stream. Non-trivial = grammars with both accepted and rejected scripts.',
 'C16': 'Grammar x string space of C01 plus error-rule frames; each input is parsed through five call forms (ostream, no stream, verbose+ostream, verbose+user stream type, verbose+no_stream). Results and functor-call logs must be identical; the verbose text is replayed line by line against the dumped real table and the functor log (every Recognized/Shift/Reduced/Go to/recovery line must be the action the table prescribes, every functor call must be announced), and the messages inside the trace must equal the non-verbose stream.',
}

def gram_replay_cmd(exe, v, pid):
    cmd = [exe, '--props', pid, '--one', v['spec'], '--nt', str(v['nt']), '--t', str(v['t']), '--prec', v.get('pspec', ''), '--rprec', v.get('rspec', ''), '--maxlen', '5', '-v']
    if v.get('input') or v.get('kind', '') in (): cmd += ['--input', v['input']]
    m = re.search(r'\+t(\d+)', v.get('frame', '')); n = re.search(r'\+n(\d+)', v.get('frame', ''))
    if m or n: cmd += ['--off', m.group(1) if m else '0', '--noff', n.group(1) if n else '0']
    if ']L' in v.get('frame', ''): cmd += ['--custom', '1']
    elif any(ch in v.get('input', '') for ch in ' \n?'): cmd += ['--rich']
    return cmd

def run_gram(pid, tier, rep, deadline_s):
    setname, passes = gram_passes(pid, tier)
    exes = {}
    for s_ in sorted(set([setname] + [p[2] for p in passes if len(p) > 2])):
        e_ = common.build_gram(s_)
        if isinstance(e_, tuple): harness_error('the white-box harness does not compile against this tree:\n' + e_[1])
        exes[s_] = e_
    exe = exes[setname]
    deadline_s += time.time() - rep.t0      # the time budget is for exploring; building the engines for a changed tree does not count against it
    merged_all = []
    bounds = []
    work = os.path.join(BUILD, 'run-%s-%s%s' % (pid, tier, ('-%d' % os.getpid()) if _SCRATCH else ''))
    shutil.rmtree(work, ignore_errors=True)
    exhaustive = True
    for pi, pss in enumerate(passes):
        label, args = pss[0], pss[1]; pexe = exes[pss[2]] if len(pss) > 2 else exe
        remaining = deadline_s - (time.time() - rep.t0)
        if remaining < 5:
            exhaustive = False; bounds.append({'pass': label, 'completed': False}); continue
        res = common.run_shards(pexe, args + ['--deadline', str(int(remaining))], os.path.join(work, 'p%d' % pi), timeout=remaining + 120)
        m = common.merge(res)
        merged_all.append(m)
        done = not m['deadline_hit'] and not m['timeouts']
        if not done: exhaustive = False
        bounds.append({'pass': label, 'completed': done, 'grammars': m['counters'].get('grammars', 0)})
    # combine passes
    tot = {'counters': {}, 'violations': [], 'violation_counts': {}, 'samples': [], 'outcomes': set(), 'crashes': []}
    for m in merged_all:
        for k, v in m['counters'].items(): tot['counters'][k] = tot['counters'].get(k, 0) + v
        for k, v in m['violation_counts'].items(): tot['violation_counts'][k] = tot['violation_counts'].get(k, 0) + v
        tot['violations'] += [v for v in m['violations'] if v['prop'] == pid]
        tot['samples'] += m['samples'].get(pid, [])
        tot['outcomes'] |= m['outcomes'].get(pid, set())
        tot['crashes'] += m['crashes']
    c = tot['counters']
    # violations: confirm by replay, then report
    counts = {}
    for k, n in tot['violation_counts'].items():
        p, kind, known = k.split('|')
        if p == pid: counts[(kind, known)] = n
    seen_kind = {}
    for v in sorted(tot['violations'], key=lambda v: (len(v['grammar']), len(v['input']))):
        kk = (v['kind'], v['known'])
        if seen_kind.get(kk, 0) >= 3: continue
        seen_kind[kk] = seen_kind.get(kk, 0) + 1
        confirmed = None
        if not v['known']:
            for e_ in [exe] + [x for x in exes.values() if x != exe]:
                r = sh(gram_replay_cmd(e_, v, pid))
                if 'no compiled frame' not in r.stderr: break
            confirmed = (r.returncode == 1)
            if r.returncode not in (0, 1): confirmed = None
            if confirmed is False:
                harness_error('violation did not reproduce on replay: %s' % json.dumps(v))
        rec = dict(v); rec['engine'] = 'gram'; rec['count'] = counts.get(kk, 1) if seen_kind[kk] == 1 else 0
        rec['summary'] = '%s | %s | input=%r | %s' % (v['grammar'], v['prec'], v['input'], v['detail'])
        rec['replay_cmd'] = './check %s --replay <this file>' % pid
        rec['confirmed_by_replay'] = confirmed
        rep.add(rec)
    for cr in tot['crashes']:
        rep.add({'kind': 'no-termination' if cr['signal'] == 0 else 'engine-crash', 'known': '', 'summary': ('the real code did not return within 30 s' if cr['signal'] == 0 else 'the real code crashed (signal %s)' % cr['signal']) + ' in phase %s on grammar %s input %r' % (cr['phase'], cr['gram'], cr['input']),
                 'spec': cr['spec'], 'nt': cr['nt'], 't': cr['t'], 'pspec': cr['prec'], 'rspec': cr['rprec'], 'input': cr['input'], 'engine': 'gram', 'grammar': cr['gram']})
    dsl_n = 0
    if pid in ('C01', 'C11'):
        dsl_n, mism = dsl_conformance(tier, exe)
        for m in mism[:5]:
            rep.add({'kind': 'dsl-path-differs', 'known': '', 'engine': 'gram', 'summary': 'grammar %s written in the DSL behaves differently from the same grammar injected into a frame (which passed the oracles): %s' % (m['spec'], m['what']), 'count': len(mism)})
    evals = c.get(pid + '.evals', 0) or c.get('grammars', 0)
    nontriv = {'C01': c.get('nontrivial_lr1', 0), 'C02': c.get('nontrivial_lr1', 0), 'C09': c.get('nontrivial_lr1', 0), 'C16': c.get('nontrivial_lr1', 0) + c.get('nontrivial_err', 0),
               'C08': c.get('nontrivial_err', 0), 'C18': c.get('nontrivial_custom', 0), 'C06': c.get('nontrivial_lr1', 0), 'C12': c.get('nontrivial_lr1', 0), 'C05': c.get('C05.assignments', 0), 'C11': c.get('grammars', 0) - c.get('grammars_lr1', 0)}.get(pid, 0)
    rep.coverage = {
        'states': c.get('states', 0), 'transitions': c.get('cells_compared', 0) + c.get('parses', 0),
        'traces_validated_against_impl': c.get('parses', 0) + dsl_n, 'dsl_conformance_replays': dsl_n,
        'samples': tot['samples'][:6] or [{'note': 'no non-trivial case in this run'}],
        'evaluations': evals, 'distinct_nontrivial': nontriv, 'rule': GRAM_RULE.get(pid, ''),
        'exhaustive': exhaustive, 'bounds': bounds,
        'distinct_outcomes': sorted(tot['outcomes'])[:60], 'n_distinct_outcomes': len(tot['outcomes']),
        'counters': c,
        'what_states_and_transitions_are': 'states = LR(1) automaton states built by the real analyzer and matched against the reference; transitions = parse-table cells compared + real parses executed; traces_validated_against_impl = reference-driver runs replayed on the real parser',
    }
    rep.assumptions = ['grammars are injected into one compiled ctpg::parser instantiation per arity vector (name lookup of symbols bypassed; bound by the DSL conformance replays)',
                       'the reference LR(1) construction, CFG membership fixpoint and reference driver in /verif/ref are correct (they are cross-checked against each other on every LR(1) grammar)',
                       'terminals are single characters; whitespace and lexing are decided by C04/C10']

# ----------------------------------------------------------------------------- E-SCALE (grammars beyond the frames' size)
SCALE_PROPS = ('C01', 'C05', 'C08', 'C09', 'C11', 'C12')
def run_scale(pid, tier, rep, deadline_s):
    """Runs every family instance of gen/scale_gen.py; violations tagged with this property are reported, the counters are added to
    the evidence under coverage['scale']."""
    exes = common.build_scale(tier)
    if isinstance(exes, tuple): harness_error('the scale harness does not compile against this tree:\n' + exes[1])
    from concurrent.futures import ThreadPoolExecutor
    def one(fe):
        f, e = fe
        return f, sh([e], timeout=300)
    tot = {}; fams = []; nv = 0; incomplete = []
    with ThreadPoolExecutor(max_workers=max(2, NCPU // 2)) as ex:
        results = list(ex.map(one, sorted(exes.items())))
    for f, r in results:
        if r.timed_out: incomplete.append(f); continue
        if r.returncode not in (0, 1) or not r.stdout.strip():
            if r.returncode < 0 or r.returncode >= 128:
                rep.add({'kind': 'engine-crash', 'known': '', 'engine': 'scale', 'family': f, 'summary': 'scale family %s: the real code crashed (exit %s) %s' % (f, r.returncode, r.stderr[-300:])}); continue
            harness_error('scale family %s exited %s: %s' % (f, r.returncode, r.stderr[-800:]))
        d = json.loads(r.stdout.strip().splitlines()[-1])
        c = d['counters']; fams.append({'family': f, 'terminals': c.get('terminals'), 'rules': c.get('rules'), 'nonterminals': c.get('nonterminals'), 'states': c.get('real_states'), 'max_items_per_state': c.get('ref_max_items_per_state'),
                                        'cells_compared': c.get('cells', 0), 'diag_lines_checked': c.get('diag_lines_checked', 0), 'parses': c.get('parses', 0), 'parses_recovered': c.get('parses_recovered', 0), 'sr_cells': c.get('sr_cells', 0)})
        for k, v in c.items():
            if isinstance(v, int) and not k.startswith('viol|') and k not in ('terminals', 'rules', 'nonterminals', 'ref_max_items_per_state'): tot[k] = tot.get(k, 0) + v
        for v in d['violations']:
            if v['prop'] != pid: continue
            nv += 1
            rep.add({'kind': 'scale-' + v['kind'], 'known': '', 'engine': 'scale', 'family': f, 'subject': f, 'input': v['input'],
                     'summary': 'scale family %s%s: %s' % (f, (' input ' + v['input']) if v['input'] else '', v['detail']), 'replay_cmd': './check %s --replay <this file>' % pid})
    rep.coverage['scale'] = {'families': fams, 'totals': tot, 'incomplete': incomplete,
                             'rule': 'each family instance is an ordinary DSL parser (custom limits) of a grammar generated by gen/scale_gen.py at a size the injection frames cannot reach; its real table and item sets are walked against the dynamic reference LR(1) collection (ref/lr1_dyn.hpp), the complete write_diag_str text is compared with the text regenerated from the reference, and every token string up to the family length bound over a terminal sample that includes the highest indices, plus listed sentences, is parsed and compared (outcome, reduction sequence, error stream) with the documented driver'}
    if incomplete: rep.coverage['exhaustive'] = False
    rep.coverage.setdefault('bounds', []).append({'pass': 'E-SCALE: %d generated grammar families beyond the frames\' size (up to %s terminals, %s rules, %s nonterminals, %s states)' % (
        len(fams), max([x['terminals'] or 0 for x in fams] or [0]), max([x['rules'] or 0 for x in fams] or [0]), max([x['nonterminals'] or 0 for x in fams] or [0]), max([x['states'] or 0 for x in fams] or [0])), 'completed': not incomplete})
    rep.coverage['states'] = rep.coverage.get('states', 0) + tot.get('real_states', 0)
    rep.coverage['transitions'] = rep.coverage.get('transitions', 0) + tot.get('cells', 0) + tot.get('parses', 0)
    rep.coverage['traces_validated_against_impl'] = rep.coverage.get('traces_validated_against_impl', 0) + tot.get('parses', 0)
    return nv

def dsl_conformance(tier, exe):
    """DESIGN 1.6: every grammar of the smallest tier written as an ordinary DSL program; its diagnostic text and parse results
    must equal what the injected frame of the same grammar produces. Returns (validated, mismatches)."""
    gen = os.path.join(VERIF, 'gen', 'dsl_gen.py')
    d = common.build_dir('dsl_' + tier, [gen], ['-O0'])
    out = os.path.join(d, 'dsl_out.txt'); specs = os.path.join(d, 'specs.txt')
    if not os.path.exists(out):
        tmp = d + '.tmp%d' % os.getpid(); shutil.rmtree(tmp, ignore_errors=True); os.makedirs(tmp)
        ntus = 16 if tier == 'quick' else 48
        r = sh([sys.executable, gen, tier, tmp, str(ntus), '3'])
        if r.returncode != 0: harness_error('dsl generator failed: ' + r.stderr)
        jobs = [(['g++', '-std=c++17', '-O0', '-I' + os.path.join(REPO, 'include'), os.path.join(tmp, 'dsl_%02d.cpp' % k), '-o', os.path.join(tmp, 'dsl_%02d' % k)], os.path.join(tmp, 'dsl_%02d.log' % k)) for k in range(ntus)]
        failed = common.compile_many(jobs)
        if failed:
            msg = open(failed[0]).read()[-1500:]; shutil.rmtree(tmp, ignore_errors=True)
            return 0, [{'spec': '(all)', 'what': 'the DSL programs do not compile: ' + msg}]
        text = ''
        for k in range(ntus):
            r = sh([os.path.join(tmp, 'dsl_%02d' % k)], timeout=600)
            text += r.stdout
            if r.returncode != 0: text += '### crash\nDSL-PROGRAM-CRASHED rc=%s\n' % r.returncode
        open(os.path.join(tmp, 'dsl_out.txt'), 'w').write(text)
        for f in glob.glob(os.path.join(tmp, 'dsl_??')) + glob.glob(os.path.join(tmp, 'dsl_??.cpp')): os.remove(f)
        if os.path.exists(d): shutil.rmtree(tmp, ignore_errors=True)
        else: os.rename(tmp, d)
    r = sh([exe, '--dump', specs, '--maxlen', '3'])
    def blocks(t):
        b = {}; cur = None
        for l in t.splitlines():
            if l.startswith('### '): cur = l[4:]; b[cur] = []
            elif cur is not None: b[cur].append(l)
        return b
    A, B = blocks(open(out).read()), blocks(r.stdout)
    mism = []
    for k in A:
        if k not in B or B[k] == ['NO-FRAME']: continue
        if A[k] != B[k]:
            first = next((i for i in range(min(len(A[k]), len(B[k]))) if A[k][i] != B[k][i]), min(len(A[k]), len(B[k])))
            mism.append({'spec': k, 'what': 'DSL program prints %r where the injected frame gives %r' % (A[k][first] if first < len(A[k]) else '<end>', B[k][first] if first < len(B[k]) else '<end>')})
    return sum(1 for k in A if k in B and B[k] != ['NO-FRAME']), mism

def replay_gram(pid, path):
    v = json.load(open(path))
    exe = None
    for s in ('quick', 'big', 'thorough'):
        e = common.build_gram(s)
        if isinstance(e, tuple): harness_error('harness does not compile: ' + e[1])
        r = sh(gram_replay_cmd(e, v, pid))
        if 'no compiled frame' in r.stderr: continue
        sys.stdout.write(r.stderr)
        if r.returncode == 1:
            print('VIOLATION property=%s replay=%s' % (pid, path)); return 1
        print('replay: no violation observed'); return 0
    harness_error('no compiled frame for this case')

# ----------------------------------------------------------------------------- E-RX checks
RX_PROPS = ('C03', 'C04', 'C10', 'C17')

def rx_passes(pid, tier):
    q = tier == 'quick'
    if pid == 'C03':
        return [('pattern ASTs up to %d nodes over 9 atom pools (2-3 atoms; * + ? {0,1,2,3,10,12} group cat alt); strings<=%d over byte-class representatives; pair BFS over all 256 bytes' % (4 if q else 5, 4),
                 ['--mode', 'c03', '--K', '4' if q else '5', '--maxlen', '4'])]
    if pid == 'C04':
        P = [('ordered term sets of size<=2 from a pool of %d term specs x inputs<=%d over {a,b,c,space,\\n,\\t,\\r,\\v,\\f,NUL} x 4 whitespace option combinations; plus a one-dimensional sweep of lexeme lengths 255..200000 for two term sets' % (12 if q else 30, 4 if q else 5),
              ['--mode', 'c04', '--setsize', '2', '--pool', '0' if q else '1', '--maxlen', '4' if q else '5'])]
        if not q: P.append(('ordered term sets of size 3 from the 12-spec pool x inputs<=4', ['--mode', 'c04', '--setsize', '3', '--pool', '0', '--maxlen', '4']))
        P.append(('ordered term sets of size 4..6 from a pool of %d mutually overlapping term specs (six-slot list grammar: more terms end in one automaton state than it has slots for) x inputs<=%d over {a,b,c,space}' % (8 if q else 10, 3 if q else 4),
                  ['--mode', 'c04w', '--setsize', '6', '--pool', '0' if q else '1', '--maxlen', '3' if q else '4']))
        P.append(('ordered sets of 4..6 keyword-like string terms sharing long prefixes (if iff in int inte integer interface i) x inputs<=%d over {i,f,n,t,space} + 600 keyword concatenations' % (3 if q else 5),
                  ['--mode', 'c04w', '--setsize', '6', '--pool', '2', '--maxlen', '3' if q else '5']))
        return P
    if pid == 'C10':
        return [('5 term sets (single-char, multi-char, multi-line lexemes, over-reading lexer) x 2 grammars (token list; statements with an error rule) x inputs<=%d over {x,q,;,space,\\t,\\r,\\n,\\v,\\f,0x80} x 4 whitespace option combinations' % (5 if q else 7),
                 ['--mode', 'c10', '--maxlen', '5' if q else '7'])]
    if pid == 'C17':
        P = [('every string of length<=%d over a 21-symbol pattern alphabet offered as a pattern' % (4 if q else 5), ['--mode', 'c17', '--maxlen', '4' if q else '5'])]
        P.append(('every string of length<=%d over the 10-symbol set alphabet {a [ ] - ^ \\\\ 0x01 0x7f x 2}' % (6 if q else 7), ['--mode', 'c17', '--pool', '2', '--maxlen', '6' if q else '7']))
        if not q: P.append(('every string of length<=7 over the 11 metacharacter alphabet', ['--mode', 'c17', '--pool', '1', '--maxlen', '7']))
        return P

RX_RULE = {
 'C03': 'Every pattern AST up to the node bound is printed to the documented syntax and given to the real pattern parser + dfa_builder; the emitted table is explored together with a reference DFA (Thompson NFA + subset construction from the AST) by breadth-first search over reachable state pairs x all 256 byte values, which decides language equality for strings of every length; the shortest distinguishing string is replayed through the real dfa_match. All strings up to the length bound over byte-class representatives are also run through the real dfa_match, a plain table walk and a second (structural) reference matcher. Non-trivial = pattern whose pair exploration visits >= 4 state pairs.',
 'C04': 'For every ordered term set the real create_lexer steps are replayed into the lexer table of a compiled list-grammar parser; (1) the merged automaton is explored against the product of per-term reference DFAs over all 256 bytes (recognised term must be the first-listed term whose language contains the prefix, for prefixes of every length); (2) every input up to the bound is parsed by the real parse() under each whitespace option combination and the delivered (term, lexeme slice) sequence or the Unexpected character report is compared with a reference longest-match tokenizer. Non-trivial = inputs yielding >= 2 tokens.',
 'C10': 'Every input up to the bound over a whitespace-heavy alphabet, under each whitespace option combination, for term sets with single-character, multi-character and multi-line lexemes, through a token-list grammar and a statement grammar with an error rule; every term value reaching a functor must carry the line/column recomputed from its byte offset, and the complete message stream must equal the one the documented driver + recovery produces on the reference token stream (positions included).',
 'C17': 'Every byte string up to the bound is offered as a pattern to the real pattern lexer+parser with both contexts (size analysis and builder) through a checked buffer laid out like cstring_buffer; a three-valued classifier written from the README (VALID / MALFORMED by one of the listed classes / UNSPECIFIED) gives the expected verdict; reads beyond the terminator are recorded. Non-trivial = strings classified MALFORMED or VALID.',
}

def run_rx(pid, tier, rep, deadline_s):
    exe = common.build_rx()
    if isinstance(exe, tuple): harness_error('the white-box harness does not compile against this tree:\n' + exe[1])
    work = os.path.join(BUILD, 'run-%s-%s%s' % (pid, tier, ('-%d' % os.getpid()) if _SCRATCH else '')); shutil.rmtree(work, ignore_errors=True)
    tot = {'counters': {}, 'violations': [], 'violation_counts': {}, 'samples': [], 'outcomes': set(), 'crashes': []}
    bounds = []; exhaustive = True
    for pi, (label, args) in enumerate(rx_passes(pid, tier)):
        remaining = deadline_s - (time.time() - rep.t0)
        if remaining < 5: exhaustive = False; bounds.append({'pass': label, 'completed': False}); continue
        res = common.run_shards(exe, args + ['--deadline', str(int(remaining))], os.path.join(work, 'p%d' % pi), timeout=remaining + 120)
        m = common.merge(res)
        done = not m['deadline_hit'] and not m['timeouts']
        if not done: exhaustive = False
        bounds.append({'pass': label, 'completed': done})
        for k, v in m['counters'].items(): tot['counters'][k] = tot['counters'].get(k, 0) + v
        for k, v in m['violation_counts'].items(): tot['violation_counts'][k] = tot['violation_counts'].get(k, 0) + v
        tot['violations'] += [v for v in m['violations'] if v['prop'] == pid]
        tot['samples'] += [x for x in m['samples'].get(pid, []) if len(json.dumps(x)) < 2000]; tot['outcomes'] |= m['outcomes'].get(pid, set()); tot['crashes'] += m['crashes']
    c = tot['counters']
    emit = os.environ.get('VERIF_EMIT_KNOWN')
    unlisted = {}
    shown = {}
    for v in sorted(tot['violations'], key=lambda v: (len(v['subject']), len(v['input']), v['subject'], v['input'])):
        key = v['known']
        rec = dict(v); rec['engine'] = 'rx'; rec['summary'] = '%s | input=%s | %s' % (v['subject'], v['input'], v['detail'])
        if key and (pid, key) in rep.instances:
            rep.add(rec); continue
        if key: unlisted.setdefault(key, v)
        kk = v['kind']
        shown[kk] = shown.get(kk, 0) + 1
        if shown[kk] <= 4: rep.add(rec)
        elif shown[kk] == 5: rec2 = dict(rec); rec2['summary'] = '(further %s cases suppressed in this listing)' % kk
    if emit and unlisted:
        os.makedirs(emit, exist_ok=True)
        with open(os.path.join(emit, pid + '_instances.txt'), 'w') as f:
            for key, v in sorted(unlisted.items(), key=lambda kv: (len(kv[1]['subject']), kv[1]['subject'], kv[0])):
                f.write('%s   # %s | input=%s | %s\n' % (key, v['subject'], v['input'], v['kind']))
    for cr in tot['crashes']:
        rep.add({'kind': 'engine-crash', 'known': '', 'engine': 'rx', 'summary': 'the real code crashed (signal %s) in phase %s on %s input(hex) %s' % (cr['signal'], cr['phase'], cr['subject'], cr['input_hex'])})
    ev = c.get(pid + '.evals', 0)
    if pid == 'C03':
        states, trans, nontriv = c.get('pair_states', 0), c.get('pair_edges', 0) + c.get('matches', 0), c.get('C03.equivalent', 0)
    elif pid == 'C04':
        states, trans, nontriv = c.get('lexer_product_states', 0), c.get('parses', 0), c.get('termsets', 0)
    elif pid == 'C10':
        states, trans, nontriv = c.get('termsets', 0), c.get('parses', 0), c.get('C10.recovered_runs', 0)
    elif pid == 'C12':
        states, trans, nontriv = c.get('dfa_states_built', 0) + c.get('termsets', 0), c.get('C12.pattern_evals', 0) + c.get('C12.termset_evals', 0), c.get('C12.pattern_evals', 0) + c.get('C12.termset_evals', 0)
        ev = nontriv
    else:
        states, trans, nontriv = c.get('C17.evals', 0), c.get('C17.evals', 0) * 2, c.get('C17.malformed', 0) + c.get('C17.valid', 0)
    rep.coverage = {'states': states, 'transitions': trans, 'traces_validated_against_impl': c.get('matches', 0) + c.get('parses', 0) + (c.get('C17.evals', 0) if pid == 'C17' else 0),
                    'samples': tot['samples'][:8] or [{'note': 'see counters'}], 'evaluations': ev, 'distinct_nontrivial': nontriv, 'rule': RX_RULE[pid],
                    'exhaustive': exhaustive, 'bounds': bounds, 'distinct_outcomes': sorted(tot['outcomes'])[:80], 'n_distinct_outcomes': len(tot['outcomes']), 'counters': c,
                    'what_states_and_transitions_are': {'C03': 'states = reachable (real DFA state, reference DFA state) pairs; transitions = pair edges over all 256 bytes + real dfa_match runs', 'C04': 'states = reachable (lexer state, per-term reference states) product states; transitions = real parses', 'C10': 'states = (term set, grammar) configurations; transitions = real parses', 'C17': 'states = candidate pattern strings; transitions = real pattern-parser runs (two contexts each)', 'C12': 'states = DFA states built by the real builder; transitions = size predictions compared'}[pid]}
    if pid == 'C04':
        nconf, probs = lexer_conformance(exe)
        for pr in probs: rep.add({'kind': 'constexpr-path-differs', 'known': '', 'engine': 'rx', 'summary': pr})
        rep.coverage['traces_validated_against_impl'] += nconf; rep.coverage['constexpr_conformance_replays'] = nconf
    if pid == 'C03':
        nconf, probs = rx_conformance(tier, exe)
        for pr in probs: rep.add({'kind': 'constexpr-path-differs', 'known': '', 'engine': 'rx', 'summary': pr})
        rep.coverage['traces_validated_against_impl'] += nconf; rep.coverage['constexpr_conformance_replays'] = nconf
    rep.assumptions = ['patterns reach the real front-end through string_view_buffer / a checked user buffer instead of cstring_buffer, and dfa_builder<N> with a large fixed N instead of the predicted size (bound to the user-visible path by the compile-time conformance replays)',
                       'reference regex semantics: /verif/ref/regex.hpp (two independent matchers cross-checked on every short string)']

# ----------------------------------------------------------------------------- compiled black-box programs (E-IN / E-CT)
BB_FLAGS = ['-std=c++17', '-O1', '-I' + os.path.join(REPO, 'include')]
PROG_TIMEOUT = 1200   # every compiled program finishes in seconds on the unchanged tree; this is the horizon for "does not terminate"

def build_prog(name, src, compiler, extra_flags=()):
    deps = [os.path.join(VERIF, 'ref', 'lr1.hpp'), os.path.join(VERIF, 'ref', 'regex.hpp')]
    return common.build_single(name, os.path.join(VERIF, 'progs', src), deps, BB_FLAGS + list(extra_flags), compiler)

def run_progs(pid, rep, specs, deadline_s):
    """specs: list of dict(name, src, compilers, flags, args, label). Each program prints one JSON line with cases/checks/failures."""
    jobs = []
    for sp in specs:
        for comp in sp.get('compilers', ['g++', 'clang++']):
            jobs.append((sp, comp))
    from concurrent.futures import ThreadPoolExecutor
    def build(j):
        sp, comp = j
        return build_prog('%s_%s' % (sp['name'], comp.replace('+', 'p')), sp['src'], comp, sp.get('flags', ()))
    with ThreadPoolExecutor(max_workers=NCPU) as ex: exes = list(ex.map(build, jobs))
    totals = {'cases': 0, 'checks': 0, 'programs': 0}; samples = []; bounds = []; extra = {}
    def run(je):
        (sp, comp), exe = je
        if isinstance(exe, tuple): return None
        return sh([exe] + [str(a) for a in sp.get('args', [])], timeout=PROG_TIMEOUT)
    with ThreadPoolExecutor(max_workers=NCPU) as ex: outs = list(ex.map(run, zip(jobs, exes)))
    for (sp, comp), exe, r in zip(jobs, exes, outs):
        label = '%s [%s]' % (sp.get('label', sp['name']), comp)
        if isinstance(exe, tuple):
            msg = [l for l in exe[1].splitlines() if 'error' in l][:3]
            rep.add({'kind': 'does-not-compile', 'known': '', 'engine': 'prog', 'summary': '%s: the documented usage exercised by progs/%s no longer compiles: %s' % (label, sp['src'], ' / '.join(msg)[:600]), 'program': sp['src'], 'compiler': comp})
            bounds.append({'pass': label, 'completed': False}); continue
        if getattr(r, 'timed_out', False):
            rep.add({'kind': 'no-termination', 'known': '', 'engine': 'prog', 'summary': '%s: the program did not finish within %d s (it takes seconds on the unchanged tree)' % (label, PROG_TIMEOUT), 'program': sp['src'], 'compiler': comp}); bounds.append({'pass': label, 'completed': False}); continue
        line = (r.stdout.strip().splitlines() or [''])[-1]
        try: res = json.loads(line)
        except Exception:
            san = [l.strip() for l in r.stderr.splitlines() if l.startswith('SUMMARY:') or 'runtime error:' in l or l.startswith('CASE ')]
            if san:
                rep.add({'kind': 'sanitizer-report', 'known': '', 'engine': 'prog', 'summary': '%s: %s' % (label, ' | '.join(san[:3])[:600]), 'program': sp['src'], 'compiler': comp}); continue
            rep.add({'kind': 'program-crashed', 'known': '', 'engine': 'prog', 'summary': '%s exited %s without a result: %s' % (label, r.returncode, (r.stdout + r.stderr)[-400:]), 'program': sp['src'], 'compiler': comp}); continue
        totals['cases'] += res.get('cases', 0); totals['checks'] += res.get('checks', 0); totals['programs'] += 1
        for k, v in res.items():
            if isinstance(v, int) and k not in ('cases', 'checks', 'failures'): extra[k] = extra.get(k, 0) + v
        bounds.append({'pass': label, 'completed': True, 'cases': res.get('cases', 0)})
        samples.append({'program': sp['src'], 'compiler': comp, 'args': sp.get('args', []), 'result': res})
        if res.get('failures', 0) or r.returncode != 0:
            rep.add({'kind': 'check-failed', 'known': '', 'engine': 'prog', 'summary': '%s: %d failing checks; first: %s' % (label, res.get('failures', 0), res.get('first_failure', '')), 'program': sp['src'], 'compiler': comp, 'args': sp.get('args', []), 'count': res.get('failures', 1)})
    return totals, samples, bounds, extra

PROG_SPECS = {
 'C19': lambda q: [dict(name='c19', src='c19_helpers.cpp', label='helper functors: all positions x arities 1..9 x value categories', flags=['-O0']),
                   dict(name='c19g', src='c19_grammars.cpp', args=[5 if q else 7], compilers=['g++'] if q else ['g++', 'clang++'], label='the README helper examples as real grammars (val, create, push_back{}, emplace_back{}, emplace_back<1,2> with conversion, construct<list,1> + push_back<1,3> with a typed term, _e2) x inputs<=%d' % (5 if q else 7))],
 'C13': lambda q: [dict(name='c13', src='c13_context.cpp', args=[4 if q else 9], label='16 >=/>>= assignments x 10 call forms (every context_parse/parse overload) x inputs<=%d over {a,b,foreign}; second grammar (arities 0/1/3/5, typed term, error rule) in 10 assignments x 5 call forms incl. verbose x inputs<=%d' % (4 if q else 9, 6 if q else 7), compilers=['g++'] if q else ['g++', 'clang++'])],
 'C14': lambda q: [dict(name='c14', src='c14_values.cpp', args=[4 if q else 8], label='instrumented copyable value type, inputs<=%d over 7 bytes' % (4 if q else 8), compilers=['g++'] if q else ['g++', 'clang++']),
                   dict(name='c14n', src='c14_values.cpp', args=[4 if q else 7], flags=['-DMOVE_NOT_NOEXCEPT'], label='copyable value type whose move constructor is not noexcept, inputs<=%d' % (4 if q else 7), compilers=['g++']),
                   dict(name='c14c', src='c14_values.cpp', args=[4 if q else 7], flags=['-DCONTEXTUAL'], label='the same grammar with every functor attached with >>= and parsed through context_parse, inputs<=%d' % (4 if q else 7), compilers=['g++']),
                   dict(name='c14cm', src='c14_values.cpp', args=[3 if q else 6], flags=['-DCONTEXTUAL', '-DMOVE_ONLY'], label='contextual functors with a move-only value type, inputs<=%d' % (3 if q else 6), compilers=['g++', 'clang++']),
                   dict(name='c14m', src='c14_values.cpp', args=[3 if q else 7], flags=['-DMOVE_ONLY'], label='move-only value type (compile probe + run), inputs<=%d' % (3 if q else 7), compilers=['g++', 'clang++'])],
}
PROG_RULE = {
 'C19': 'Complete enumeration (the space is finite): _e1.._e9 x arity N..9; construct<T,I> x I<=arity<=9; push_back<C,A> and emplace_back<C,A> x all 72 ordered position pairs x every arity max(C,A)..9; val / create x arity 0..9; value categories lvalue, const lvalue, rvalue, move-only rvalue. construct<T,I> is also checked to list-initialise (T{value}: std::vector<int> from 3 is {3}). Every other argument is a Poison object without copy, move or conversions (any use fails to compile); results are checked by type (static_assert), by address identity and by the unchanged data() pointer of the returned container. Compiled and run with g++ and clang++. Second program: the README examples of the helpers as real grammars (arguments are term values and nonterminal values handed over by the parser: conversions from term_value<T>, lexeme slices, lists built by push_back / emplace_back / construct) on every input up to the bound against hand-written evaluators.',
 'C13': 'One 4-rule grammar in all 16 assignments of >= / >>= (16 parser instantiations) x call forms covering every overload of context_parse and parse {non-const lvalue, const lvalue, prvalue, moved lvalue of a move-only type; with stream; with options+stream; parse() and parse()+stream} x every input up to the bound over {a, b, foreign byte}. Functors log rule, argument count, address/constness/value category of the context and a generation counter kept in the context; the expected call sequence is the reduction sequence of the documented driver on a reference LR(1) table. A second grammar with rules of 0, 1, 3 and 5 right-side symbols, a typed term (whose functor must never see the context) and an error rule runs in 10 assignments under 5 call forms (including verbose and non-default options), the expected sequence coming from the documented driver with recovery.',
 'C14': 'A grammar with nterm<V>, a typed term producing V, list building, a nullable rule, operator precedence and an error rule; V is instrumented (identity per value, copy/move/destroy counters, live set). Every input up to the bound over the 6 terminals plus a foreign byte is parsed; invariants per execution: no copies, every value destroyed exactly once, each value handed to at most one functor call, no functor sees a moved-from value, nothing alive after the call. A second build with a move-only V (copy constructor deleted) must compile and satisfy the same invariants; a third build uses a copyable V whose move constructor is not noexcept (nothing may fall back to copying); two more builds attach every functor with >>= and parse through context_parse (values must reach contextual functors as movable rvalues too; one functor takes a value parameter by value). Every build also runs a small grammar over trivially destructible handle types (one with counting copy/move constructors, one move-only) through cstring_buffer, i.e. on the fixed-capacity stacks: no copies there either.',
}

def run_prog_check(pid, tier, rep, deadline_s):
    q = tier == 'quick'
    totals, samples, bounds, extra = run_progs(pid, rep, PROG_SPECS[pid](q), deadline_s)
    rep.coverage = {'states': max(totals['cases'], 1), 'transitions': max(totals['checks'], 1), 'traces_validated_against_impl': totals['cases'],
                    'samples': samples or [{'note': 'no program ran'}], 'evaluations': totals['cases'], 'distinct_nontrivial': totals['cases'], 'rule': PROG_RULE[pid],
                    'exhaustive': all(b['completed'] for b in bounds), 'bounds': bounds, 'counters': extra,
                    'what_states_and_transitions_are': 'states = enumerated cases (configuration x input), all executed on the real library through its public interface; transitions = individual oracle checks evaluated'}
    rep.assumptions = ['black-box: compiled without the verification guard and without access to private members']

# ----------------------------------------------------------------------------- C07: compile-time program enumerator (E-CT)
C07_RULE = 'For each literal-typed grammar every input up to the bound over the grammar\'s terminals, a foreign byte and whitespace becomes one line `constexpr auto r_i = ce_parse("...")` (= p.parse(cstring_buffer("...")), or the (options, buffer, stream) overload for the variants with skip_whitespace(false) / skip_newline(false), or context_parse for the grammar with >>= functors, or a custom-lexer parser) of a generated translation unit. Phase 1: g++ and clang++ check the unit with -fsyntax-only and unlimited diagnostics; every diagnostic is mapped back to its case by line number, so "is this parse a constant expression on this compiler" is decided per case. Phase 2: the unit is compiled to a program (cases that are not constant expressions fall back to run time only) which parses every input at run time through cstring_buffer, string_buffer and string_view_buffer, with a constexpr-constructed and a run-time-constructed parser, and compares all six results with each other and with the constant-evaluated value.'

def c07_one(gname, n, comp, work):
    src = os.path.join(work, '%s_%s.cpp' % (gname, comp.replace('+', 'p'))); mp = src + '.map.json'
    r = sh([sys.executable, os.path.join(VERIF, 'gen', 'c07_gen.py'), gname, str(n), src, mp])
    if r.returncode != 0: harness_error('c07 generator failed: ' + r.stderr)
    m = json.load(open(mp)); lines = {int(k): v for k, v in m['lines'].items()}; inputs = m['inputs']
    inc = ['-std=c++17', '-I' + os.path.join(REPO, 'include')]
    if comp == 'g++': syn = ['g++'] + inc + ['-fsyntax-only', '-fmax-errors=0', '-fconstexpr-ops-limit=2000000000', '-fconstexpr-loop-limit=100000000', src]
    else: syn = ['clang++'] + inc + ['-fsyntax-only', '-ferror-limit=0', '-fconstexpr-steps=2000000000', '-fbracket-depth=8192', src]
    r = sh(syn)
    bad = {}; other = []
    base = os.path.basename(src)
    ctx_line = None   # g++ reports an error inside the header after "in 'constexpr' expansion of" lines that name the case
    for l in (r.stdout + r.stderr).splitlines():
        mc = re.match(r'.*?' + re.escape(base) + r":(\d+):\d+:\s+in 'constexpr' expansion of", l)
        if mc and ctx_line is None and int(mc.group(1)) in lines: ctx_line = int(mc.group(1))
        mm = re.match(r'.*?' + re.escape(base) + r':(\d+):\d+: error: (.*)', l)
        if mm:
            ln = int(mm.group(1))
            if ln in lines: bad.setdefault(lines[ln], mm.group(2))
            else: other.append(l)
            ctx_line = None
        elif ': error:' in l:
            if ctx_line is not None: bad.setdefault(lines[ctx_line], l.split('error:', 1)[1].strip())
            else: other.append(l)
            ctx_line = None
    res = {'grammar': gname, 'compiler': comp, 'cases': len(inputs), 'not_constant': [(i, inputs[i], bad[i]) for i in sorted(bad)], 'other_errors': other[:3]}
    if other: return res
    exe = src[:-4]
    flags = ['-O1'] + (['-fconstexpr-ops-limit=2000000000', '-fconstexpr-loop-limit=100000000'] if comp == 'g++' else ['-fconstexpr-steps=2000000000', '-fbracket-depth=8192'])
    r = sh([comp] + inc + flags + ['-DNOCE_%d' % i for i in bad] + [src, '-o', exe])
    if r.returncode != 0: res['other_errors'] = [(r.stdout + r.stderr)[-600:]]; return res
    r = sh([exe], timeout=600)
    try: res['run'] = json.loads((r.stdout.strip().splitlines() or [''])[-1])
    except Exception: res['other_errors'] = ['run-time part crashed: rc=%s %s' % (r.returncode, (r.stdout + r.stderr)[-300:])]
    for f in (exe, src, mp):
        try: os.remove(f)
        except OSError: pass
    return res

def run_c07(pid, tier, rep, deadline_s):
    q = tier == 'quick'
    plan = [('stars', 4 if q else 7), ('expr', 3 if q else 5), ('recovery', 4 if q else 6), ('numbers', 3 if q else 6), ('nul', 4 if q else 7), ('stars-nows', 4 if q else 6), ('recovery-nonl', 4 if q else 5), ('ctx', 4 if q else 6), ('custom', 4 if q else 6), ('helpers', 4 if q else 6), ('bigvalue', 0), ('stars-long', 0), ('recovery-long', 0), ('expr-long', 0)]
    work = os.path.join(BUILD, 'run-C07-%s%s' % (tier, ('-%d' % os.getpid()) if _SCRATCH else '')); shutil.rmtree(work, ignore_errors=True); os.makedirs(work)
    jobs = [(g, n, c) for (g, n) in plan for c in ('g++', 'clang++')]
    from concurrent.futures import ThreadPoolExecutor
    with ThreadPoolExecutor(max_workers=NCPU) as ex: results = list(ex.map(lambda j: c07_one(j[0], j[1], j[2], work), jobs))
    shutil.rmtree(work, ignore_errors=True)
    cases = checks = ce = acc = 0; samples = []; bounds = []
    for r in results:
        label = ('%s grammar, inputs<=%d, %s' % (r['grammar'], dict(plan)[r['grammar']], r['compiler'])) if not (r['grammar'].endswith('-long') or r['grammar'] == 'bigvalue') else ('%s grammar: an 8 KiB literal value type, literals up to 400 characters, %s' % (r['grammar'], r['compiler'])) if r['grammar'] == 'bigvalue' else ('%s grammar, literals of 100..2049 characters / nesting to 600 (one-dimensional sweep), %s' % (r['grammar'][:-5], r['compiler']))
        if r['other_errors']:
            rep.add({'kind': 'does-not-compile', 'known': '', 'engine': 'ct', 'summary': '%s: the generated unit does not compile: %s' % (label, ' / '.join(map(str, r['other_errors']))[:500])}); bounds.append({'pass': label, 'completed': False}); continue
        for (i, text, msg) in r['not_constant'][:3]:
            rep.add({'kind': 'not-a-constant-expression', 'known': '', 'engine': 'ct', 'summary': '%s: constexpr auto r = p.parse(cstring_buffer(%r)) is not a constant expression: %s' % (label, text, msg[:200]), 'count': len(r['not_constant']), 'grammar': r['grammar'], 'input': text, 'compiler': r['compiler']})
        run = r.get('run', {})
        if run.get('failures', 0): rep.add({'kind': 'results-differ', 'known': '', 'engine': 'ct', 'summary': '%s: %d mismatches; first: %s' % (label, run['failures'], run.get('first_failure', '')), 'count': run['failures']})
        cases += run.get('cases', 0); checks += run.get('checks', 0); ce += run.get('constant_evaluated', 0); acc += run.get('accepted', 0)
        bounds.append({'pass': label, 'completed': True, 'cases': r['cases'], 'not_constant_expressions': len(r['not_constant'])})
        samples.append({'grammar': r['grammar'], 'compiler': r['compiler'], 'cases': r['cases'], 'result': run})
    rep.coverage = {'states': max(cases, 1), 'transitions': max(checks + ce, 1), 'traces_validated_against_impl': ce, 'samples': samples[:8] or [{'note': 'nothing ran'}],
                    'evaluations': cases, 'distinct_nontrivial': acc, 'rule': C07_RULE + ' Non-trivial (distinct_nontrivial) = accepted inputs; rejected inputs are the interesting half for constant evaluation and are all included.',
                    'exhaustive': all(b['completed'] for b in bounds), 'bounds': bounds,
                    'what_states_and_transitions_are': 'states = (grammar, input, compiler) cases; transitions = result comparisons + constant evaluations; traces_validated_against_impl = cases whose compile-time value was compared with the run-time value'}
    rep.assumptions = ['black-box programs; compilers: g++ 12 and clang++ 14 as installed']

# ----------------------------------------------------------------------------- composite checks (C06, C12)
def merge_cov(a, b):
    if not a: return dict(b)
    out = dict(a)
    for k, v in b.items():
        if k not in out: out[k] = v
        elif isinstance(v, bool): out[k] = out[k] and v
        elif isinstance(v, int): out[k] = out[k] + v
        elif isinstance(v, list): out[k] = out[k] + v
        elif isinstance(v, dict): out[k] = merge_cov(out[k], v) if all(isinstance(x, (int, dict)) for x in v.values()) else {**out[k], **v}
        elif isinstance(v, str) and v != out[k]: out[k] = out[k] + ' || ' + v
    return out

SAN = ['-g', '-fsanitize=address,undefined', '-fno-sanitize-recover=all']
GRAM_RULE['C06'] = 'E-GRAM part: every LR(1) grammar of the frame bounds x every string up to the bound is parsed through a checked user buffer (records every dereference of end(), every access or iterator formed outside [begin,end]) and, for the frames that instantiate it, through cstring_buffer<N>; the guarded cvector hook watches operator[]/back/pop_back/erase of every fixed-capacity container; results must equal the string_view_buffer run and every parse must finish within a step horizon.'
GRAM_RULE['C12'] = 'E-GRAM part: for every grammar of the frame bounds the real table construction runs with default limits (a refusal or a capacity failure there means a derived cap is too small); every LR(1) grammar x string is parsed through cstring_buffer<N> (fixed stacks) and compared with the vector-stack run; the depth the documented driver needs is compared with N+EmptyRulesCount+1.'

def run_c06(pid, tier, rep, deadline_s):
    q = tier == 'quick'
    cov = {}
    run_gram('C06', tier, rep, deadline_s); cov = merge_cov(cov, rep.coverage)
    specs = [dict(name='c06r', src='c06_regex.cpp', args=[4 if q else 6], flags=SAN, compilers=['clang++'], label='regex::expr::match, 6 patterns x strings<=%d over {a,b,c,NUL,0x80}, ASan+UBSan' % (4 if q else 6)),
             dict(name='c06s', src='c06_safety.cpp', args=[3 if q else 4], flags=SAN, compilers=['clang++'], label='3 compiled grammars x byte strings<=%d x 4 buffer kinds x 3 option sets, ASan+UBSan, + depth sweeps to 1e5' % (3 if q else 4))]
    totals, samples, bounds, extra = run_progs(pid, rep, specs, deadline_s)
    cov = merge_cov(cov, {'states': totals['cases'], 'transitions': totals['checks'], 'traces_validated_against_impl': totals['cases'], 'samples': samples, 'evaluations': totals['cases'], 'distinct_nontrivial': extra.get('accepted', 0) + extra.get('matching', 0),
                          'bounds': bounds, 'exhaustive': all(b['completed'] for b in bounds), 'counters': extra,
                          'rule': 'Compiled part: regex::expr::match for 6 patterns on every string up to the bound (matching or not) and 3 compiled grammars on every byte string up to the bound over the grammar bytes plus NUL, 0x80/0xff, space and newline, through a checked user buffer, string_view_buffer over an exact-size heap block, string_buffer and cstring_buffer<N>, under AddressSanitizer+UBSan; all buffer kinds must agree. Depth/length sweeps 10..100000 are a one-dimensional sample, not exhaustive.'})
    rep.coverage = cov

def run_c12(pid, tier, rep, deadline_s):
    q = tier == 'quick'
    cov = {}
    run_gram('C12', tier, rep, deadline_s); cov = merge_cov(cov, rep.coverage)
    # (a) automaton sizes: the E-RX runs report C12 violations next to C03/C04 ones
    for sub in ('C03', 'C04'):
        save_pid = rep.pid
        run_rx_for(sub, 'C12', tier, rep, deadline_s); cov = merge_cov(cov, rep.coverage)
    # (c) user-supplied limits around the real counts
    work = os.path.join(BUILD, 'run-C12lim-%s%s' % (tier, ('-%d' % os.getpid()) if _SCRATCH else '')); shutil.rmtree(work, ignore_errors=True); os.makedirs(work)
    gen = os.path.join(VERIF, 'gen', 'c12_gen.py'); inc = ['-std=c++17', '-O1', '-DCTPG_VERIF', '-I' + os.path.join(REPO, 'include')]
    grammars = sh([sys.executable, gen, 'list']).stdout.split()
    def one(g):
        pr = os.path.join(work, g + '_probe'); r = sh([sys.executable, gen, 'probe', g, pr + '.cpp'])
        r = sh(['g++'] + inc + [pr + '.cpp', '-o', pr])
        if r.returncode != 0: return (g, 'compile', (r.stdout + r.stderr)[-500:])
        nm = sh([pr]).stdout.split()
        if len(nm) != 2 or int(nm[0]) < 1: return (g, 'probe', 'could not read the real counts from write_diag_str: %r' % nm)
        lim = os.path.join(work, g + '_lim'); sh([sys.executable, gen, 'limits', g, nm[0], nm[1], lim + '.cpp'])
        r = sh(['g++'] + inc + [lim + '.cpp', '-o', lim])
        if r.returncode != 0: return (g, 'compile', (r.stdout + r.stderr)[-500:])
        r = sh([lim], timeout=300)
        try: return (g, 'ok', json.loads((r.stdout.strip().splitlines() or [''])[-1]), nm)
        except Exception: return (g, 'crash', 'rc=%s %s' % (r.returncode, (r.stdout + r.stderr)[-300:]))
    from concurrent.futures import ThreadPoolExecutor
    with ThreadPoolExecutor(max_workers=NCPU) as ex: res = list(ex.map(one, grammars))
    shutil.rmtree(work, ignore_errors=True)
    cases = checks = 0; samples = []; bounds = []
    for r in res:
        label = 'custom limits around the real counts, grammar %s' % r[0]
        if r[1] != 'ok':
            rep.add({'kind': 'custom-limits-' + r[1], 'known': '', 'engine': 'ct', 'summary': '%s: %s' % (label, r[2])}); bounds.append({'pass': label, 'completed': False}); continue
        out = r[2]; cases += out['cases']; checks += out['checks']
        bounds.append({'pass': label + ' (states %s, items per state %s)' % tuple(r[3]), 'completed': True})
        samples.append({'grammar': r[0], 'real_counts': r[3], 'result': out})
        if out['failures']: rep.add({'kind': 'custom-limits', 'known': '', 'engine': 'ct', 'summary': '%s: %s' % (label, out['first_failure']), 'count': out['failures']})
    cov = merge_cov(cov, {'states': cases, 'transitions': checks, 'traces_validated_against_impl': cases, 'samples': samples, 'evaluations': cases, 'distinct_nontrivial': cases, 'bounds': bounds,
                          'exhaustive': all(b['completed'] for b in bounds),
                          'rule': 'Custom-limits part: for 4 grammars the real state count N and item count M are read from the default build, then the parser is constructed with each state_count_cap in N-2..N+1 and each max_sit_count_per_state_cap in M-2..M+1; every construction must either be rejected (exception) or yield a parser whose diagnostic text and parse results equal the default build; the guarded cvector hook reports silent overruns. Automaton-size part: every pattern / term set explored by C03/C04 compares the size predicted by dfa_size_analyzer (and the sum of the terms\' dfa_size) with the number of states the builder really uses.'})
    rep.coverage = cov

def run_rx_for(sub, pid, tier, rep, deadline_s):
    """run the E-RX passes of property `sub` but collect the violations and counters attributed to `pid`"""
    global rx_passes
    orig = rx_passes
    try:
        rx_passes_sub = orig(sub, tier)
        rx_passes = lambda p, t: rx_passes_sub
        RX_RULE.setdefault(pid, '')
        run_rx(pid, tier, rep, deadline_s)
    finally:
        rx_passes = orig

def run_c17(pid, tier, rep, deadline_s):
    run_rx(pid, tier, rep, deadline_s); cov = dict(rep.coverage)
    totals, samples, bounds, extra = run_progs(pid, rep, [dict(name='c17u', src='c17_undeclared.cpp', flags=['-O0'], label='grammars mentioning undeclared symbols: 34 refusal cases (root / left side / right side x nterm / char / string / regex term x unrelated, extending and prefix names; each of the 9 positions of a 9-symbol rule; the 21st rule; 69-character names differing in the last character) + 6 acceptance controls')], deadline_s)
    rep.coverage = merge_cov(cov, {'states': totals['cases'], 'transitions': totals['checks'], 'traces_validated_against_impl': totals['cases'], 'samples': samples, 'evaluations': totals['cases'], 'distinct_nontrivial': extra.get('refused', 0), 'bounds': bounds,
                                   'exhaustive': all(b['completed'] for b in bounds), 'rule': 'Grammar part: run-time construction of parsers whose rules mention an undeclared symbol in every position kind must throw (compiled black-box program, g++ and clang++).'})

# ----------------------------------------------------------------------------- C15: histories, schedules, TSan
C15_RULE = 'Call alphabet of 17 calls on two parser objects (generated lexer + typed term + error rule; custom lexer): accepted, recovering, failing-at-eof, lexical-error and failing-recovery parses, a verbose parse, context_parse with a mutated context, write_diag_str, and a re-entrant call (a functor of the running parse starts a complete second parse, with recovery, on the same parser object; absolute oracle: both observe what they observe on their own), and two parses that are left by an exception thrown from a functor. (1) Histories: every call sequence up to the depth bound runs in its own forked process on parser objects placed in read-only (mprotect) pages; after every call the bytes of the parser objects and of the program\'s .data/.bss must be unchanged and the last call must observe (result, functor log, stream text) exactly what it observes as the first call of a fresh process. (2) Schedules: for 12 pairs of calls two real threads run under a baton-passing scheduler with scheduling points in every user-supplied seam (buffer iterator dereference/increment, functor call, stream <<, custom lexer match); every schedule with at most 2 preemptions is executed (stateless depth-first enumeration by choice-sequence replay, one forked process per execution, divergence on replay is a harness error); each thread must observe its isolated result; the same for 6 triples of calls on three threads (which thread starts and which continues after one ends are enumerated as free choices, preemption bound 1 quick / 2 thorough). (3) Side condition, not the deciding step: the same bodies free-running on 3 threads under ThreadSanitizer.'

def run_c15(pid, tier, rep, deadline_s):
    q = tier == 'quick'
    from concurrent.futures import ThreadPoolExecutor
    flags = ['-pthread']
    exe = build_prog('c15', 'c15_sched.cpp', 'g++', flags)
    exet = build_prog('c15tsan', 'c15_sched.cpp', 'g++', flags + ['-g', '-fsanitize=thread'])
    for e, what in ((exe, 'explorer'), (exet, 'ThreadSanitizer build')):
        if isinstance(e, tuple):
            rep.add({'kind': 'does-not-compile', 'known': '', 'engine': 'sched', 'summary': 'progs/c15_sched.cpp (%s) does not compile: %s' % (what, ' / '.join([l for l in e[1].splitlines() if 'error' in l][:3])[:500])})
    bounds = []; samples = []; states = trans = cases = 0; extra = {}
    def parse(r):
        try: return json.loads((r.stdout.strip().splitlines() or [''])[-1])
        except Exception: return None
    if not isinstance(exe, tuple):
        depth = 3 if q else 4
        r = sh([exe, 'hist', str(depth)], timeout=PROG_TIMEOUT)
        res = parse(r)
        if res is None: rep.add({'kind': 'program-crashed', 'known': '', 'engine': 'sched', 'summary': 'history exploration exited %s: %s' % (r.returncode, (r.stdout + r.stderr)[-300:])})
        else:
            if res['failures']: rep.add({'kind': 'history-dependent-call', 'known': '', 'engine': 'sched', 'summary': res['first_failure'], 'count': res['failures'], 'mode': 'hist', 'depth': depth})
            bounds.append({'pass': 'all call sequences up to depth %d over %d calls' % (depth, res['alphabet']), 'completed': True, 'histories': res['histories']})
            samples.append({'mode': 'hist', 'result': res}); states += res['histories']; trans += res['checks']; cases += res['histories']
        bound = 2
        nsh = 14
        with ThreadPoolExecutor(max_workers=nsh) as ex: outs = list(ex.map(lambda k: sh([exe, 'sched', str(bound), '%d/%d' % (k, nsh)], timeout=PROG_TIMEOUT), range(nsh)))
        tot = {'schedules': 0, 'scheduling_points': 0, 'failures': 0, 'pairs': 0, 'maxp': 0}; first = ''
        ok = True
        for r in outs:
            res = parse(r)
            if res is None or 'harness_error' in res:
                if res and 'harness_error' in res: harness_error('schedule replay diverged: ' + res['harness_error'])
                rep.add({'kind': 'program-crashed', 'known': '', 'engine': 'sched', 'summary': 'schedule exploration exited %s: %s' % (r.returncode, (r.stdout + r.stderr)[-300:])}); ok = False; continue
            tot['schedules'] += res['schedules']; tot['scheduling_points'] += res['scheduling_points']; tot['failures'] += res['failures']; tot['pairs'] += res['pairs']; tot['maxp'] = max(tot['maxp'], res['max_points_per_execution'])
            if res['failures'] and not first: first = res['first_failure']
        if tot['failures']: rep.add({'kind': 'schedule-dependent-call', 'known': '', 'engine': 'sched', 'summary': first, 'count': tot['failures'], 'mode': 'sched', 'bound': bound})
        bounds.append({'pass': 'all schedules with <=%d preemptions, 2 threads x 1 call, %d call pairs (up to %d scheduling points per execution)' % (bound, tot['pairs'], tot['maxp']), 'completed': ok, 'schedules': tot['schedules']})
        samples.append({'mode': 'sched', 'result': tot}); states += tot['schedules']; trans += tot['scheduling_points']; cases += tot['schedules']
        extra = tot
        # three threads, one call each: every choice of who starts, who continues after a thread ends, and at most 1 preemption (quick) / 2 (thorough)
        b3 = 1 if q else 2
        with ThreadPoolExecutor(max_workers=6) as ex: outs3 = list(ex.map(lambda k: sh([exe, 'sched', str(b3), '%d/6' % k, '3'], timeout=PROG_TIMEOUT), range(6)))
        t3 = {'schedules': 0, 'scheduling_points': 0, 'failures': 0}; first3 = ''; ok3 = True
        for r in outs3:
            res = parse(r)
            if res is None or 'harness_error' in res:
                if res and 'harness_error' in res: harness_error('schedule replay diverged (3 threads): ' + res['harness_error'])
                rep.add({'kind': 'program-crashed', 'known': '', 'engine': 'sched', 'summary': '3-thread schedule exploration exited %s: %s' % (r.returncode, (r.stdout + r.stderr)[-300:])}); ok3 = False; continue
            t3['schedules'] += res['schedules']; t3['scheduling_points'] += res['scheduling_points']; t3['failures'] += res['failures']
            if res['failures'] and not first3: first3 = res['first_failure']
        if t3['failures']: rep.add({'kind': 'schedule-dependent-call', 'known': '', 'engine': 'sched', 'summary': first3, 'count': t3['failures'], 'mode': 'sched3', 'bound': b3})
        bounds.append({'pass': 'all schedules with <=%d preemptions, 3 threads x 1 call, 6 call triples' % b3, 'completed': ok3, 'schedules': t3['schedules']})
        samples.append({'mode': 'sched3', 'result': t3}); states += t3['schedules']; trans += t3['scheduling_points']; cases += t3['schedules']
    if not isinstance(exet, tuple):
        env = dict(os.environ); env['TSAN_OPTIONS'] = 'halt_on_error=1 exitcode=66'
        r = sh([exet, 'free', '20' if q else '200'], env=env, timeout=PROG_TIMEOUT)
        res = parse(r)
        if r.returncode == 66 or 'ThreadSanitizer' in r.stderr:
            loc = [l.strip() for l in r.stderr.splitlines() if 'ctpg.hpp' in l][:2]
            rep.add({'kind': 'data-race', 'known': '', 'engine': 'sched', 'summary': 'ThreadSanitizer reports a data race between concurrent calls on one parser object: %s' % ' / '.join(loc)[:400], 'mode': 'free'})
        elif res is None: rep.add({'kind': 'program-crashed', 'known': '', 'engine': 'sched', 'summary': 'free-running pass exited %s: %s' % (r.returncode, r.stderr[-300:])})
        elif res['failures']: rep.add({'kind': 'concurrent-call-differs', 'known': '', 'engine': 'sched', 'summary': res['first_failure'], 'count': res['failures'], 'mode': 'free'})
        bounds.append({'pass': 'free-running ThreadSanitizer pass (side condition)', 'completed': res is not None})
    rep.coverage = {'states': max(states, 1), 'transitions': max(trans, 1), 'traces_validated_against_impl': cases, 'samples': samples or [{'note': 'nothing ran'}], 'evaluations': cases, 'distinct_nontrivial': cases,
                    'rule': C15_RULE, 'exhaustive': all(b['completed'] for b in bounds), 'bounds': bounds, 'counters': extra,
                    'what_states_and_transitions_are': 'states = histories + schedules executed; transitions = calls checked in histories + scheduling points passed in schedules'}
    rep.assumptions = ['scheduling points are the seams through which the library calls back into user code; the library contains no synchronisation operations of its own', 'sequential consistency (no atomics in the library)', '2 threads in the scheduled exploration, 3 in the TSan pass']

def run_c08(pid, tier, rep, deadline_s):
    q = tier == 'quick'
    run_gram(pid, tier, rep, deadline_s); cov = dict(rep.coverage)
    totals, samples, bounds, extra = run_progs(pid, rep, [dict(name='c08c', src='c08_compiled.cpp', args=[5 if q else 7], compilers=['g++'] if q else ['g++', 'clang++'], label='5 compiled grammars with error rules (README; two nesting levels; typed no_type separator; custom lexer; README with typed terms and functor-call accounting) x inputs<=%d; depth sweeps; up to %d recoveries in one parse' % (5 if q else 7, 4096 if q else 70000))], deadline_s)
    rep.coverage = merge_cov(cov, {'states': totals['cases'], 'transitions': totals['checks'], 'traces_validated_against_impl': totals['cases'], 'samples': samples, 'evaluations': totals['cases'], 'distinct_nontrivial': extra.get('recovered', 0) + extra.get('recovery_failed', 0), 'bounds': bounds,
                                   'exhaustive': all(b['completed'] for b in bounds), 'counters': extra, 'rule': 'Compiled part: four ordinary DSL grammars with error rules on every input up to the bound over their terminals, space and a foreign byte; result, value tree and every message (with position) must equal the documented driver + recovery on a reference LR(1) table.'})

def run_c05(pid, tier, rep, deadline_s):
    q = tier == 'quick'
    run_gram(pid, tier, rep, deadline_s); cov = dict(rep.coverage)
    totals, samples, bounds, extra = run_progs(pid, rep, [objects_spec('rules', q), CTORS_SPEC, dict(name='c05d', src='c05_dsl.cpp', args=[6 if q else 8], compilers=['g++'] if q else ['g++', 'clang++'], label='DSL spellings of an explicit rule precedence ([n] before/after >= and >>=, explicit precedences on binary rules, negative value) x inputs<=%d over {2,-,*,space}' % (6 if q else 8))], deadline_s)
    rep.coverage = merge_cov(cov, {'states': totals['cases'], 'transitions': totals['checks'], 'traces_validated_against_impl': totals['cases'], 'samples': samples, 'evaluations': totals['cases'], 'distinct_nontrivial': extra.get('accepted', 0), 'bounds': bounds,
                                   'exhaustive': all(b['completed'] for b in bounds), 'rule': 'Compiled part: one operator grammar written with the explicit rule precedence attached before and after a >= functor and before and after a >>= functor (parsed through context_parse), with the prefix rule at three levels, and with explicit precedences (one negative) on the binary rules; the grouping of every input up to the bound must equal that of an independent precedence-climbing parser built from the declared levels.'})

CTORS_SPEC = dict(name='c05c', src='c05_ctors.cpp', label='every constructor spelling of char / string / regex / typed / custom terms: precedence, associativity and display name given are the ones the term has, the ones that decide a grouping, the name in messages (34 spellings)')

def objects_spec(part, q):
    return dict(name='c07o_' + part, src='c07_objects.cpp', args=[4 if q else 6, part], compilers=['g++'] if q else ['g++', 'clang++'],
                label={'objects': 'parser objects as values: stack / heap / copy / move / vector growth / source destroyed and its storage reused by another parser of the same type, inputs<=%d' % (4 if q else 6),
                       'rules': 'named rule objects reused by the caller with and without [n]', 'functors': 'one stateful functor object handed as an lvalue to several typed terms'}[part])

def run_c01(pid, tier, rep, deadline_s):
    q = tier == 'quick'
    run_gram(pid, tier, rep, deadline_s); cov = dict(rep.coverage)
    totals, samples, bounds, extra = run_progs(pid, rep, [dict(name='c01n', src='c01_names.cpp', args=[5 if q else 7], compilers=['g++'] if q else ['g++', 'clang++'], label='symbol identity in the DSL (two regex terms with one display name; a term named like a nonterminal) x inputs<=%d' % (5 if q else 7))], deadline_s)
    rep.coverage = merge_cov(cov, {'states': totals['cases'], 'transitions': totals['checks'], 'traces_validated_against_impl': totals['cases'], 'samples': samples, 'evaluations': totals['cases'], 'distinct_nontrivial': extra.get('accepted', 0), 'bounds': bounds,
                                   'exhaustive': all(b['completed'] for b in bounds), 'rule': 'Compiled part: grammars in which two different terms carry the same display name, and in which a term is named like a nonterminal; each rule must refer to the object that was written (every input up to the bound against a hand-written recogniser of the rules as written).'})

def run_c16(pid, tier, rep, deadline_s):
    q = tier == 'quick'
    run_gram(pid, tier, rep, deadline_s); cov = dict(rep.coverage)
    totals, samples, bounds, extra = run_progs(pid, rep, [dict(name='c16o', src='c16_order.cpp', args=[5 if q else 7], compilers=['g++'] if q else ['g++', 'clang++'], label='trace lines against the moment of the actions: functors writing into the trace stream, a throwing functor for each rule, inputs<=%d' % (5 if q else 7))], deadline_s)
    rep.coverage = merge_cov(cov, {'states': totals['cases'], 'transitions': totals['checks'], 'traces_validated_against_impl': totals['cases'], 'samples': samples, 'evaluations': totals['cases'], 'distinct_nontrivial': totals['cases'], 'bounds': bounds,
                                   'exhaustive': all(b['completed'] for b in bounds), 'rule': 'Compiled part: every functor writes a line into the stream that receives the verbose trace, and for each rule in turn its functor throws; on every input up to the bound the line announcing a reduction must precede the effects of that reduction\'s functor, no later trace line may appear before them, announced reductions and functor calls must match one to one, and a parse left by an exception must have announced the reduction whose functor threw.'})

def run_c11(pid, tier, rep, deadline_s):
    run_gram(pid, tier, rep, deadline_s); cov = dict(rep.coverage)
    totals, samples, bounds, extra = run_progs(pid, rep, [dict(name='c11n', src='c11_names.cpp', label='diagnostics of grammars whose terms have display names different from their ids (named / typed / unnamed / empty-named regex terms, custom terms): every symbol mentioned is a declared display name')], deadline_s)
    rep.coverage = merge_cov(cov, {'states': totals['cases'], 'transitions': totals['checks'], 'traces_validated_against_impl': totals['cases'], 'samples': samples, 'evaluations': totals['cases'], 'distinct_nontrivial': totals['cases'], 'bounds': bounds,
                                   'exhaustive': all(b['completed'] for b in bounds), 'rule': 'Compiled part: write_diag_str of three grammars whose terms carry display names that differ from their internal ids; every symbol in the RULES section, in item lines (also the lookahead) and in action lines must be the display name of a declared symbol, no internal id may appear in the parser section, and the rule list must be complete.'})

def run_c18(pid, tier, rep, deadline_s):
    run_gram(pid, tier, rep, deadline_s); cov = dict(rep.coverage)
    totals, samples, bounds, extra = run_progs(pid, rep, [CTORS_SPEC, dict(name='c18l', src='c18_long.cpp', label='custom lexer with 5 terms answering lengths 1..200000 (one-dimensional sweep): slices, positions and match() requests'),
         dict(name='c18p', src='c05_dsl.cpp', args=[6, 'custom'], label='custom terms carrying precedence and associativity (also left/right associativity at precedence 0) against their char-term twins under the generated lexer, inputs<=6')], deadline_s)
    rep.coverage = merge_cov(cov, {'states': totals['cases'], 'transitions': totals['checks'], 'traces_validated_against_impl': totals['cases'], 'samples': samples, 'evaluations': totals['cases'], 'distinct_nontrivial': totals['cases'], 'bounds': bounds,
                                   'exhaustive': all(b['completed'] for b in bounds), 'rule': 'Compiled part (one-dimensional sweep, not exhaustive): a 5-term custom lexer whose answers have lengths 1, 255..257, 65534..65537, 70000, 131071, 131072, 200000 (single-line and multi-line lexemes, up to 70000 statements): every term must reach its functor with exactly the answered slice and its true line/column, and match() must be requested exactly at the term starts with the true source point.'})

def run_c09(pid, tier, rep, deadline_s):
    q = tier == 'quick'
    run_gram(pid, tier, rep, deadline_s); cov = dict(rep.coverage)
    totals, samples, bounds, extra = run_progs(pid, rep, [CTORS_SPEC, dict(name='c09m', src='c09_messages.cpp', args=[4 if q else 5], compilers=['g++'] if q else ['g++', 'clang++'], label='compiled grammar with every kind of term (regex with/without custom name, string, typed, char, non-printable char) x inputs<=%d over 10 bytes' % (4 if q else 5))], deadline_s)
    rep.coverage = merge_cov(cov, {'states': totals['cases'], 'transitions': totals['checks'], 'traces_validated_against_impl': totals['cases'], 'samples': samples, 'evaluations': totals['cases'], 'distinct_nontrivial': extra.get('lexical_errors', 0) + extra.get('syntax_errors', 0), 'bounds': bounds,
                                   'exhaustive': all(b['completed'] for b in bounds), 'counters': extra, 'rule': 'Compiled part: one grammar whose terms cover every term kind and naming rule, on every input up to the bound over its bytes plus space, newline and a foreign byte; the message stream must be exactly what the documented driver on a reference table predicts (term names, positions, single report, silence on success).'})

def run_c02(pid, tier, rep, deadline_s):
    q = tier == 'quick'
    run_gram(pid, tier, rep, deadline_s); cov = dict(rep.coverage)
    totals, samples, bounds, extra = run_progs(pid, rep, [objects_spec('functors', q), dict(name='c02v', src='c02_values.cpp', args=[4 if q else 6], compilers=['g++'] if q else ['g++', 'clang++'], label='rules without functor (0-3 children of distinct types, initializer_list types), typed term, helper functors, functors returning lvalue references; inputs<=%d over 9 bytes' % (4 if q else 6)),
        dict(name='c08c', src='c08_compiled.cpp', args=[5 if q else 7], compilers=['g++'] if q else ['g++', 'clang++'], label='term functor accounting: typed terms (README grammar) and custom terms with an error rule, inputs<=%d: each term functor runs exactly once per term the documented driver shifts, never for a term skipped during recovery' % (5 if q else 7))], deadline_s)
    rep.coverage = merge_cov(cov, {'states': totals['cases'], 'transitions': totals['checks'], 'traces_validated_against_impl': totals['cases'], 'samples': samples, 'evaluations': totals['cases'], 'distinct_nontrivial': extra.get('accepted', 0), 'bounds': bounds,
                                   'exhaustive': all(b['completed'] for b in bounds), 'rule': 'Compiled part: a grammar whose rules have no functor (left-side value constructed from 0, 1, 2 and 3 right-side values of distinct types), a typed term and helper functors, on every input up to the bound; value and construction order are compared with an independent recursive-descent evaluator.'})

def lexer_conformance(exe):
    """DESIGN 1.6: the term sets of seeds/termsets.txt as `constexpr parser` objects; their lexer_sm must equal, state by state, the
    table the lexer frame builds at run time through the same library calls, and lexer_dfa_size must equal the sum E-RX predicts."""
    gen = os.path.join(VERIF, 'gen', 'lexct_gen.py'); ts = os.path.join(VERIF, 'seeds', 'termsets.txt')
    d = common.build_dir('lexct', [gen, ts, os.path.join(VERIF, 'engines', 'dfa_dump.hpp')], ['-O0'])
    outf = os.path.join(d, 'ct.txt')
    if not os.path.exists(outf):
        tmp = d + '.tmp%d' % os.getpid(); shutil.rmtree(tmp, ignore_errors=True); os.makedirs(tmp)
        src = os.path.join(tmp, 'lexct.cpp'); sh([sys.executable, gen, ts, src])
        r = sh(['g++', '-std=c++17', '-O0', '-fno-access-control', '-fconstexpr-ops-limit=2000000000', '-I' + os.path.join(REPO, 'include'), '-I' + os.path.join(VERIF, 'engines'), src, '-o', src[:-4]])
        if r.returncode != 0:
            msg = ' / '.join([l for l in (r.stdout + r.stderr).splitlines() if 'error' in l][:3])[:500]; shutil.rmtree(tmp, ignore_errors=True)
            return 0, ['the constexpr parsers for the conformance term sets do not compile: ' + msg]
        open(os.path.join(tmp, 'ct.txt'), 'w').write(sh([src[:-4]], timeout=300).stdout)
        os.remove(src[:-4])
        if os.path.exists(d): shutil.rmtree(tmp, ignore_errors=True)
        else: os.rename(tmp, d)
    rt = sh([exe, '--mode', 'dump-termsets', '--one', ts]).stdout
    def blocks(t):
        b = {}; cur = None
        for l in t.splitlines():
            if l.startswith('### '): cur = l[4:]; b[cur] = []
            elif cur is not None: b[cur].append(l)
        return b
    A, B = blocks(open(outf).read()), blocks(rt)
    probs = ['term set %r: the lexer table built in constant evaluation differs from the run-time built one' % k for k in A if k in B and A[k] != B[k]]
    if set(A) != set(B): probs.append('term set lists differ')
    return len(A), probs[:5]

def rx_conformance(tier, exe):
    """DESIGN 1.6, second bullet: every pattern up to K nodes as `constexpr regex::expr<P>` (cstring_buffer, dfa_builder<dfa_size>, constant
    evaluation, g++ and clang++); the dumped automaton and dfa_size must equal what the run-time driven builder produced."""
    gen = os.path.join(VERIF, 'gen', 'rxct_gen.py'); K, pool = ('3', '2') if tier == 'quick' else ('3', '0')
    d = common.build_dir('rxct_' + tier, [gen, os.path.join(VERIF, 'engines', 'dfa_dump.hpp'), os.path.join(VERIF, 'engines', 'rx_main.cpp')], [K, pool])
    outf = os.path.join(d, 'ct.txt')
    problems = []
    if not os.path.exists(outf):
        tmp = d + '.tmp%d' % os.getpid(); shutil.rmtree(tmp, ignore_errors=True); os.makedirs(tmp)
        pats = os.path.join(tmp, 'pats.txt'); open(pats, 'w').write(sh([exe, '--mode', 'list-patterns', '--K', K, '--pool', pool]).stdout)
        ntus = 8 if tier == 'quick' else 32
        sh([sys.executable, gen, pats, tmp, str(ntus)])
        text = ''
        from concurrent.futures import ThreadPoolExecutor
        def one(k):
            src = os.path.join(tmp, 'rxct_%02d.cpp' % k); exe2 = src[:-4]; comp = 'g++' if k % 2 == 0 else 'clang++'
            flags = ['-std=c++17', '-O0', '-fno-access-control', '-I' + os.path.join(REPO, 'include'), '-I' + os.path.join(VERIF, 'engines')] + (['-fconstexpr-ops-limit=2000000000'] if comp == 'g++' else ['-fconstexpr-steps=400000000'])
            r = sh([comp] + flags + [src, '-o', exe2])
            if r.returncode != 0:
                lm = json.load(open(src[:-4] + '.map.json')); bad = set()
                for l in (r.stdout + r.stderr).splitlines():
                    mm = re.match(r'.*rxct_%02d\.cpp:(\d+):\d+: error' % k, l)
                    if mm and mm.group(1) in lm: bad.add(lm[mm.group(1)])
                return ('', ['constexpr regex::expr<%r> does not compile with %s' % (b, comp) for b in sorted(bad)[:3]] or ['conformance unit %d does not compile with %s: %s' % (k, comp, (r.stdout + r.stderr)[-300:])])
            return (sh([exe2], timeout=300).stdout, [])
        with ThreadPoolExecutor(max_workers=NCPU) as ex: res = list(ex.map(one, range(ntus)))
        for t, pr in res: text += t; problems += pr
        if problems: shutil.rmtree(tmp, ignore_errors=True); return 0, problems
        open(os.path.join(tmp, 'ct.txt'), 'w').write(text)
        for f in glob.glob(os.path.join(tmp, 'rxct_??')) + glob.glob(os.path.join(tmp, 'rxct_??.cpp')): os.remove(f)
        if os.path.exists(d): shutil.rmtree(tmp, ignore_errors=True)
        else: os.rename(tmp, d)
    rt = sh([exe, '--mode', 'dump-patterns', '--K', K, '--pool', pool]).stdout
    def blocks(t):
        b = {}; cur = None
        for l in t.splitlines():
            if l.startswith('### '): cur = l[4:]; b[cur] = []
            elif cur is not None: b[cur].append(l)
        return b
    A, B = blocks(open(outf).read()), blocks(rt)
    for k in A:
        if k in B and A[k] != B[k]: problems.append('pattern %r: the automaton built in constant evaluation (cstring_buffer, dfa_builder<dfa_size>) differs from the run-time built one' % k)
    if set(A) != set(B): problems.append('pattern lists differ (%d vs %d)' % (len(A), len(B)))
    return len(A), problems[:5]

# ----------------------------------------------------------------------------- dispatch
QUICK_DEADLINE, THOROUGH_DEADLINE = 240, 1500

def main(argv):
    if not argv: print('usage: check <ID> [--tier quick|thorough] [--replay file] | --setup'); return 2
    try:
        if argv[0] == '--setup':
            t = time.time()
            e = common.build_gram('quick')
            if isinstance(e, tuple): print(e[1]); return 2
            e = common.build_gram('big')
            if isinstance(e, tuple): print(e[1]); return 2
            e = common.build_gram('lift')
            if isinstance(e, tuple): print(e[1]); return 2
            e = common.build_rx()
            if isinstance(e, tuple): print(e[1]); return 2
            e = common.build_scale('quick')
            if isinstance(e, tuple): print(e[1]); return 2
            print('setup ok in %.0fs' % (time.time() - t)); return 0
        pid = argv[0]; tier = os.environ.get('VERIF_TIER', 'quick') or 'quick'; replay = None
        i = 1
        while i < len(argv):
            if argv[i] == '--tier': tier = argv[i + 1]; i += 2
            elif argv[i] == '--replay': replay = argv[i + 1]; i += 2
            else: print('unknown argument ' + argv[i]); return 2
        if replay:
            v = json.load(open(replay))
            if v.get('engine') == 'gram' and v.get('spec'): return replay_gram(pid, replay)
            # other engines: the artefact describes the case completely; it is replayed by re-running the (deterministic) exploration that
            # contains it and looking for the same case again
            rep = Report(pid, tier); rep.replaying = True
            import io, contextlib
            buf = io.StringIO()
            global EVID, REPLAYS
            scratch = os.path.join(BUILD, 'replay-%d' % os.getpid()); EVID = os.path.join(scratch, 'evidence'); REPLAYS = os.path.join(scratch, 'replays')
            with contextlib.redirect_stdout(buf):
                dispatch(pid, tier, rep, QUICK_DEADLINE if tier == 'quick' else THOROUGH_DEADLINE); rep.finish()
            shutil.rmtree(scratch, ignore_errors=True)
            same = [w for w in rep.violations if w.get('kind') == v.get('kind') and (w.get('summary', '')[:80] == v.get('summary', '')[:80] or w.get('subject') == v.get('subject'))]
            if same:
                print('VIOLATION property=%s replay=%s' % (pid, replay)); print('  reproduced: ' + same[0].get('summary', '')[:500]); return 1
            print('replay: the case did not reproduce (%d other violations in the re-run)' % len(rep.violations)); return 0
        rep = Report(pid, tier)
        deadline = QUICK_DEADLINE if tier == 'quick' else THOROUGH_DEADLINE
        if not dispatch(pid, tier, rep, deadline): print('no check for ' + pid); return 2
        return rep.finish()
    except HarnessError as e:
        print('HARNESS-ERROR: ' + str(e)); return 2
    except Exception as e:   # a bug in the driver must never look like a verdict about ctpg
        import traceback; traceback.print_exc()
        print('HARNESS-ERROR: unexpected exception in the driver: %r' % (e,)); return 2

def dispatch(pid, tier, rep, deadline):
    if True:
        if pid == 'C08': run_c08(pid, tier, rep, deadline)
        elif pid == 'C05': run_c05(pid, tier, rep, deadline)
        elif pid == 'C01': run_c01(pid, tier, rep, deadline)
        elif pid == 'C16': run_c16(pid, tier, rep, deadline)
        elif pid == 'C11': run_c11(pid, tier, rep, deadline)
        elif pid == 'C18': run_c18(pid, tier, rep, deadline)
        elif pid == 'C02': run_c02(pid, tier, rep, deadline)
        elif pid == 'C09': run_c09(pid, tier, rep, deadline)
        elif pid in GRAM_PROPS: run_gram(pid, tier, rep, deadline)
        elif pid == 'C17': run_c17(pid, tier, rep, deadline)
        elif pid in RX_PROPS: run_rx(pid, tier, rep, deadline)
        elif pid in PROG_SPECS: run_prog_check(pid, tier, rep, deadline)
        elif pid == 'C07': run_c07(pid, tier, rep, deadline)
        elif pid == 'C15': run_c15(pid, tier, rep, deadline)
        elif pid == 'C06': run_c06(pid, tier, rep, deadline)
        elif pid == 'C12': run_c12(pid, tier, rep, deadline)
        else: return False
        if pid in SCALE_PROPS: run_scale(pid, tier, rep, deadline)
        if pid in ('C04', 'C07', 'C15'):   # a parser object is a value: copies, moved-to objects, vector elements behave like the original (also after the original is gone)
            cov = dict(rep.coverage)
            totals, samples, bounds, extra = run_progs(pid, rep, [objects_spec('objects', tier == 'quick')], deadline)
            rep.coverage = merge_cov(cov, {'states': totals['cases'], 'transitions': totals['checks'], 'traces_validated_against_impl': totals['cases'], 'bounds': bounds, 'exhaustive': all(b['completed'] for b in bounds)})
        return True
