#!/usr/bin/env python3
"""Regenerates /verif/MANIFEST.json from the table below (run after adding or dropping a check)."""
import json, os, sys
VERIF = os.path.dirname(os.path.dirname(os.path.abspath(__file__)))

HOOK_COMMITS = ['a275b0b', '4d9bc15']

ENGINES = [
 {'name': 'E-GRAM', 'path': 'engines/gram_main.cpp', 'serves_properties': ['C01', 'C02', 'C05', 'C06', 'C08', 'C09', 'C11', 'C12', 'C16', 'C18'],
  'kind_free_text': 'explicit-state exploration: enumerates every grammar inside stated bounds, injects it into a compiled instantiation of the real ctpg::parser, compares the LR(1) automaton the real analyzer builds with a reference canonical LR(1) automaton state by state, then runs the real parse() on every string up to a length bound against a reference driver'},
  {'name': 'E-RX', 'path': 'engines/rx_main.cpp', 'serves_properties': ['C03', 'C04', 'C10', 'C12', 'C17'],
  'kind_free_text': 'explicit-state exploration: enumerates pattern ASTs / term sets / pattern strings inside stated bounds, drives the real regex front-end, dfa_builder and lexer loop, and explores the emitted automaton together with a reference automaton (reachable state pairs x all 256 bytes)'},
  {'name': 'E-SCALE', 'path': 'engines/scale_main.hpp', 'serves_properties': ['C01', 'C05', 'C08', 'C09', 'C11', 'C12'],
  'kind_free_text': 'generated DSL parsers (gen/scale_gen.py) for grammar families at sizes the injection frames cannot reach (62-200 terminals, 254-300 rules, 64-130 nonterminals, right sides of 10-66 symbols, precedence values up to INT_MIN/INT_MAX, nullable unit chains of depth 6-100); per instance every state, table cell and diagnostics line is compared with a dynamically sized reference LR(1) (ref/lr1_dyn.hpp) and every input of a bounded set is parsed against the documented driver; sizes are sampled (one-dimensional sweep), the comparison inside an instance is exhaustive'},
 {'name': 'E-IN/E-CT', 'path': 'progs/', 'serves_properties': ['C06', 'C07', 'C12', 'C13', 'C14', 'C19'],
  'kind_free_text': 'compiled black-box programs (no guard, no private access) that enumerate a finite configuration x input space completely and check invariants on every execution; built with g++ and clang++'},
  {'name': 'E-SCHED', 'path': 'progs/c15_sched.cpp', 'serves_properties': ['C15'],
  'kind_free_text': 'history enumerator (one forked process per call sequence, mprotect-ed parser object, image comparison) and hand-written preemption-bounded scheduler over real threads with scheduling points in the user-supplied seams; ThreadSanitizer build for the free-running side condition'},
]

# id -> (technique, level text, level note, design section)
CHECKS = {
 'C01': ('exhaustive enumeration of grammars x input strings within bounds, real parser vs reference LR(1) automaton and CFG membership',
         'Bounded exhaustive model checking: every grammar with <=4 rules / <=5 right-side symbols (and 5-6 short rules) over 2 nonterminals and 2-3 terminals, ~750 seed grammars (textbook shapes in every rule order) each with all one-symbol variants, every string up to length 4-5 plus inputs with whitespace/newlines/foreign bytes; a table that differs from canonical LR(1) widens the string bound to 7; a watchdog turns a non-returning real call into a violation; DSL conformance replays bind the injected frames to what users compile. Also: lifted frames (the same enumeration with every symbol index shifted across the 64/128-bit word boundaries of the library bitsets by unused filler symbols) and E-SCALE families (up to 200 terminals / 300 rules / 130 nonterminals / 66-symbol rules; sizes sampled, each instance compared completely).',
         'Trusted: the reference LR(1)/CFG models in /verif/ref (cross-checked against each other on every case) and the injection frame (grammar_info overwritten at run time, everything else is the real code).', '3 C01'),
 'C02': ('exhaustive enumeration of grammars x accepted inputs, functor-call log vs reference derivation tree',
         'Bounded exhaustive model checking of the value stack discipline: for every accepted input of every LR(1) grammar in the bounds the tree built by the real reductions equals the derivation tree, each value produced once and consumed once; plus a compiled program (rules without functor with 0-3 children of distinct types, typed term, helper functors, functors whose result type merely converts to the left side\'s type) on every input up to length 4-6 against an independent evaluator, and a deep right-recursion sweep to 70001 tokens. Also lifted frames (indices across the bitset word boundaries) and left-side types with initializer_list constructors.',
         'Uniform value type in the frames (term_value<int>); default functors, typed/custom terms and helper functors are decided by the compiled-program checks.', '3 C02'),
 'C09': ('exhaustive enumeration of grammars x inputs, captured error stream vs reference driver',
         'Bounded exhaustive model checking of the failure path: every rejected input of every LR(1) grammar in the bounds (also with whitespace, newlines and foreign bytes) yields exactly one report naming the first offending term/byte and its position; accepted inputs are silent; plus a compiled grammar covering the name of every term kind. Also lifted frames, E-SCALE families, and term names that are long (42-70 characters) or contain formatting characters.',
         'Single-character terms on one line; multi-line positions belong to C10, lexical errors to C04.', '3 C09'),
 'C11': ('exhaustive enumeration of grammars, diagnostic text vs dumped parse table vs reference LR(1) automaton (state isomorphism)',
         'Bounded exhaustive model checking over grammar space including S/R (both preferences, via precedence assignments), R/R, accept/reduce and error-rule grammars: text == table the parser executes, conflict lines iff reference conflicts (R/R line wherever two reductions compete), rule and side named correctly. Also lifted frames and E-SCALE families (conflicts involving rule numbers 252..299, 130 nonterminals, 200 terminals): complete diagnostics text regenerated from the dynamic reference.',
         'Item sets are identified with canonical LR(1) item sets; cells whose behaviour is documented as undefined (R/R) are judged only on the presence of a conflict line.', '3 C11'),
 'C16': ('exhaustive enumeration of grammars x inputs x call forms; verbose trace replayed against the dumped table and the functor log',
         'Bounded exhaustive model checking: five call forms per input must agree on result and functor log; the verbose text must be a legal, complete run of the real table that announces exactly the functor calls made, its REGEX MATCH lines a walk of the dumped lexer table, every position prefix the true line/column (inputs with whitespace and newlines included). Also lifted frames and long discard runs (40 terms) in the trace.',
         'Lexer trace lines (REGEX MATCH) are not interpreted here.', '3 C16'),
 'C08': ('exhaustive enumeration of error-rule grammars x inputs, real recovery vs the documented recovery procedure on the reference table',
         'Bounded exhaustive model checking of error recovery: every conflict-free grammar of the error-rule frames (2-3 terminals), every string up to the bound (errors at every depth relative to the states accepting error, first/last token, end of input, consecutive); plus 4 compiled grammars (README, two nesting levels, no_type-valued typed term, custom lexer) on every input up to length 5-7. Also lifted error-rule frames, long discard runs (40 terms), E-SCALE recovery families with 63-200 terminals, and one-dimensional depth sweeps (stack depth 1..70000, thorough 300000) with the error placed so that 0, 1 or 2 states are popped.',
         'The documented procedure is formalised in ref::drive; "action on error" includes reductions on the error lookahead.', '3 C08'),
 'C05': ('exhaustive enumeration of S/R grammars x precedence/associativity assignments, resolved table and tree shapes vs documented rule',
         'Bounded exhaustive model checking: all grammars in the bounds with a shift/reduce cell, all assignments of precedence levels and associativities to the terms involved and explicit rule precedences; table compared cell by cell, then all strings parsed and grouping compared. Also lifted frames, and E-SCALE families with 9 precedence levels and with precedence values at INT_MIN, +-2^15, 2^16, INT_MAX. A compiled program covers the DSL spellings of an explicit rule precedence ([n] before/after >= and >>=, negative values, explicit precedences on binary rules) on every input up to 6-8 symbols against an independent precedence-climbing parser.',
         'rule[0] is indistinguishable from "no explicit precedence" in the API and is not explored.', '3 C05'),
 'C18': ('stateless exploration of every script of custom-lexer answers (environment-answer enumeration by choice-sequence replay) x grammars x inputs, against the documented driver',
         'Bounded exhaustive model checking: the lexer is the environment; every answer sequence within range is enumerated depth-first for every conflict-free grammar of the custom-lexer frames and every input up to the bound. Plus a compiled 5-term custom lexer answering lengths 1..200000 (one-dimensional sweep).',
         'Answers outside the stated contract (index >= number of terms, length > remaining input, length 0) are not generated.', '3 C18'),
 'C03': ('exhaustive enumeration of pattern ASTs; product-automaton reachability of the emitted DFA against a reference DFA over all 256 bytes',
         'Bounded exhaustive model checking over pattern space (AST node bound) with an unbounded verdict over input space: language equality is decided on the automata, so strings of every length are covered for each explored pattern. Plus a one-dimensional sweep of two-, three- and four-digit repetition counts (13..1000) on six pattern shapes.',
         'Broad genuine defect (in-place merge is not a determinisation): affected patterns are listed instance by instance in known/C03_instances.txt; any other failing pattern is a violation.', '3 C03'),
 'C04': ('exhaustive enumeration of ordered term sets x inputs x whitespace options; merged lexer automaton vs product of per-term reference automata; real parse vs reference tokenizer',
         'Bounded exhaustive model checking: term sets up to size 2-3 from a fixed pool, inputs up to length 4-5, three option combinations; the automaton-level comparison covers prefixes of every length. Plus ordered term sets of size 4..6 from a pool of mutually overlapping terms (six-slot lexer frame) and a one-dimensional sweep of lexeme lengths 255..200000.',
         'Term sets affected by the regex merge defect are listed in known/C04_instances.txt.', '3 C04'),
 'C10': ('exhaustive enumeration of inputs x whitespace options over multi-line lexeme term sets, positions vs an independent position calculator and the documented driver',
         'Bounded exhaustive model checking over input space (length <=5 quick, <=7 thorough, 7-byte alphabet incl. tab, CR, LF) for 5 term sets x 2 grammars (one with error recovery). Plus a one-dimensional sweep of lines and columns around 2^8, 2^16, 2^17 (whitespace runs, newline runs, long and multi-line lexemes, 10^5 terms on one line).',
         'Uses the lexer frame (a compiled parser whose lexer table is rebuilt at run time through the library\'s own builder calls).', '3 C10'),
 'C17': ('exhaustive enumeration of all strings up to a length bound as patterns; three-valued reference classifier; checked buffer for reads past the end',
         'Bounded exhaustive model checking over pattern-string space: every string up to length 4 (quick) / 5 over 21 symbols, up to 6-7 over set and metacharacter alphabets; plus a compiled program constructing parsers that mention undeclared symbols in every position kind. Undeclared symbols also at each position of a 9-symbol rule, in the 21st rule, and with 69-character names differing in the last character.',
         'Refusal is observed as an exception at run-time construction (the same code path makes a constexpr object ill-formed).', '3 C17'),
 'C06': ('exhaustive enumeration of grammars x inputs and of byte strings on compiled grammars through a checked user buffer / every buffer kind, with the cvector bounds hook and ASan+UBSan as oracles',
         'Bounded exhaustive model checking: (1) every LR(1) grammar of the E-GRAM bounds x every string up to length 4-5 through a checked user buffer and cstring_buffer<N>; (2) 3 compiled grammars x every byte string up to length 3-4 over 8-9 bytes incl. NUL/0x80/0xff/whitespace x 4 buffer kinds x 3 option sets under ASan+UBSan; (3) regex::expr::match x every string up to length 4-6; termination by step horizon. Depth sweeps to 1e5 are a one-dimensional sample.',
         'Sanitizer build uses clang++ (g++ 12 cannot constant-evaluate the header under -fsanitize=null). "Very long or deeply nested input" is only sampled.', '3 C06'),
 'C12': ('exhaustive enumeration: predicted vs real automaton sizes over pattern/term-set space, default caps over grammar space, fixed stacks over grammar x input space, user limits around the real counts',
         'Bounded exhaustive model checking of every derived capacity inside the explored spaces of C01/C03/C04, plus 4 grammars x 8 limit values each. Plus E-SCALE families built with custom limits that cover the reference automaton, and valid term sets of size 4..6 (a rejected or overrunning construction is a violation).',
         'Stack-capacity formula N+EmptyRulesCount+1 is a recorded known finding (condition-keyed).', '3 C12'),
 'C07': ('exhaustive enumeration of inputs as generated constexpr declarations; per-case constant-expression verdict from g++ and clang++ diagnostics; six-way run-time differential',
         'Bounded exhaustive exploration: 4 literal-typed grammars x every input up to length 3-4 (quick) / 4-6 (thorough) x 2 compilers; the constant evaluator doubles as a complete undefined-behaviour oracle for the failure paths. Plus literals of 100..2049 characters and nesting to 600 for three grammars (one-dimensional sweep).',
         'Results are ints; a context grammar is not included.', '3 C07'),
 'C15': ('explicit enumeration of call histories + stateless preemption-bounded schedule exploration (baton-passing scheduler, choice-sequence replay), read-only parser pages, static-data image comparison; ThreadSanitizer as side condition',
         'Model checking of the real code: all call sequences up to depth 3 (quick) / 4 (thorough) over 17 calls (one re-entrant: a functor starts a second parse on the same object; two left by an exception thrown from a functor); all schedules with at most 2 preemptions for 12 call pairs on 2 threads; all schedules with at most 1 (quick) / 2 (thorough) preemptions for 6 call triples on 3 threads.',
         'Not covered: more than 3 threads under the scheduler, more than 2 preemptions, weak memory orderings.', '3 C15'),
 'C13': ('exhaustive enumeration of contextual/non-contextual functor assignments x context categories x inputs on compiled parsers',
         'Bounded exhaustive exploration of a finite configuration space (16 functor assignments x 6 call forms) crossed with every input up to the bound; every functor call is compared with the reduction sequence of the documented driver. A second grammar (rules of 0/1/3/5 symbols, typed term, error rule) runs in 10 assignments under 5 call forms incl. verbose; helper functors attached with >>= are covered too.',
         'Two grammar shapes; context types: a move-only struct, int (for the helper functors); black box.', '3 C13'),
 'C14': ('exhaustive enumeration of inputs on a compiled parser with an instrumented value type; invariants checked on every execution',
         'Bounded exhaustive exploration over input space (success, failure and recovery paths) with value-identity tracking; plus a move-only build on both compilers. Two further builds attach every functor with >>= and parse through context_parse.',
         'The cvector (cstring_buffer) value stack only admits trivially destructible values, which cannot be instrumented; that path is covered for indices/overflow by C06/C12.', '3 C14'),
 'C19': ('complete enumeration of the finite space of helper positions x arities x value categories (static_assert + run-time identity checks)',
         'The space is finite and is enumerated completely: 581 cases, on g++ and clang++.', 'Arity is capped at 9 (the library defines _e1.._e9).', '3 C19'),
}

NOT_YET = 'check not built yet (work in progress; see DESIGN.md section 11)'

def main():
    ids = [json.loads(l)['id'] for l in open(os.path.join(VERIF, 'properties.jsonl'))]
    claimed = [a for a in sys.argv[1:]] or list(CHECKS.keys())
    checks = []
    for pid in ids:
        if pid not in CHECKS or pid not in claimed: continue
        tech, text, note, ref = CHECKS[pid]
        checks.append({'property_id': pid, 'quick_cmd': './check %s --tier quick' % pid, 'thorough_cmd': './check %s --tier thorough' % pid,
                       'evidence_file': '/verif/evidence/%s.json' % pid, 'replay_cmd_template': './check %s --replay {path}' % pid,
                       'engine': next((e['name'] for e in ENGINES if pid in e['serves_properties']), ''),
                       'level_claimed': {'category': 'model_checking', 'text': text, 'design_ref': 'DESIGN.md section ' + ref},
                       'level_note': note, 'technique': tech})
    m = {'version': 1, 'setup_cmd': './check --setup',
         'hooks': {'guard': 'CTPG_VERIF', 'enable': 'white-box harness translation units are compiled with -DCTPG_VERIF (arms the stdex::cvector bounds hook) and -fno-access-control; black-box programs are compiled without either',
                   'baseline_off_cmd': './run_baseline.sh', 'source_commits': HOOK_COMMITS, 'add_only': True},
         'engines': ENGINES, 'checks': checks,
         'not_applicable': [{'property_id': i, 'reason': NOT_YET} for i in ids if i not in [c['property_id'] for c in checks]],
         'notes': 'Deciding technique for every check: bounded exhaustive exploration of the real code against reference models (DESIGN.md). Known findings: known_findings.txt.'}
    json.dump(m, open(os.path.join(VERIF, 'MANIFEST.json'), 'w'), indent=1)
    print('claimed:', [c['property_id'] for c in checks])

if __name__ == '__main__':
    main()
