"""Shared driver machinery: build cache, shard runner, known findings, evidence."""
import sys, os, json, time, hashlib, subprocess, shutil, glob, re
from concurrent.futures import ThreadPoolExecutor

VERIF = os.path.dirname(os.path.dirname(os.path.abspath(__file__)))
REPO = os.environ.get('VERIF_REPO', '/repo')   # override only for evaluating seeded changes in a scratch worktree
BUILD = os.path.join(VERIF, 'build')
NCPU = int(os.environ.get('VERIF_JOBS', os.cpu_count() or 4))
SEED = int(os.environ.get('VERIF_SEED', '0') or 0)

class _Timeout:
    """what sh() returns when the command exceeded its time limit"""
    def __init__(self, cmd, secs): self.returncode = -9; self.stdout = ''; self.stderr = 'TIMEOUT after %ss: %s' % (secs, ' '.join(map(str, cmd))[:200]); self.timed_out = True

def sh(cmd, **kw):
    try:
        r = subprocess.run(cmd, stdout=subprocess.PIPE, stderr=subprocess.PIPE, universal_newlines=True, **kw)
        r.timed_out = False
        return r
    except subprocess.TimeoutExpired:
        return _Timeout(cmd, kw.get('timeout'))

def file_hash(paths):
    h = hashlib.sha256()
    for p in sorted(paths):
        h.update(p.encode()); h.update(b'\0')
        with open(p, 'rb') as f: h.update(f.read())
    return h.hexdigest()[:16]

def tree_files():
    out = []
    for root, _, files in os.walk(os.path.join(REPO, 'include')):
        for f in files: out.append(os.path.join(root, f))
    return out

class HarnessError(Exception): pass
def harness_error(msg):
    raise HarnessError(msg)

# ----------------------------------------------------------------------------- build cache
def build_dir(name, sources, flags):
    key = file_hash(tree_files() + sources) + hashlib.sha256(' '.join(flags).encode()).hexdigest()[:8]
    d = os.path.join(BUILD, name + '-' + key)
    # drop stale builds of the same target (other tree states), keeping disk use bounded
    for old in ([] if os.environ.get('VERIF_REPO') else glob.glob(os.path.join(BUILD, name + '-*'))):
        if old != d and re.fullmatch(re.escape(name) + r'-[0-9a-f]{24}', os.path.basename(old)):
            shutil.rmtree(old, ignore_errors=True)
    return d

def compile_many(jobs):
    """jobs: list of (cmd, logfile). Runs NCPU at a time; returns list of failed logs."""
    failed = []
    def run(j):
        cmd, log = j
        r = sh(cmd)
        if r.returncode != 0:      # one retry: a compiler killed by a transient condition (memory pressure from a concurrent job) is not a property of the tree
            time.sleep(5); r = sh(cmd)
        if r.returncode != 0:
            with open(log, 'w') as f: f.write(' '.join(cmd) + '\n' + r.stdout + r.stderr)
            return log
        return None
    with ThreadPoolExecutor(max_workers=NCPU) as ex:
        for res in ex.map(run, jobs):
            if res: failed.append(res)
    return failed

GRAM_FLAGS = ['-std=c++17', '-O1', '-DCTPG_VERIF', '-fno-access-control', '-I' + os.path.join(REPO, 'include'), '-I' + os.path.join(VERIF, 'engines')]

RX_FLAGS = ['-std=c++17', '-O1', '-DCTPG_VERIF', '-fno-access-control', '-I' + os.path.join(REPO, 'include'), '-I' + os.path.join(VERIF, 'engines')]

def build_single(name, main_src, extra_srcs, flags, compiler='g++'):
    srcs = [main_src] + extra_srcs
    d = build_dir(name, srcs, flags + [compiler])
    exe = os.path.join(d, name)
    if os.path.exists(exe): return exe
    tmp = d + '.tmp%d' % os.getpid()
    shutil.rmtree(tmp, ignore_errors=True); os.makedirs(tmp)
    r = sh([compiler] + flags + [main_src, '-o', os.path.join(tmp, name)])
    if r.returncode != 0: time.sleep(5); r = sh([compiler] + flags + [main_src, '-o', os.path.join(tmp, name)])   # one retry, see compile_many
    if r.returncode != 0:
        shutil.rmtree(tmp, ignore_errors=True)
        return ('COMPILE-FAIL', (r.stdout + r.stderr)[-3000:])
    if os.path.exists(d): shutil.rmtree(tmp, ignore_errors=True)
    else: os.rename(tmp, d)
    return exe

def build_rx():
    e = os.path.join(VERIF, 'engines'); r = os.path.join(VERIF, 'ref')
    return build_single('rx', os.path.join(e, 'rx_main.cpp'), [os.path.join(e, 'jsonw.hpp'), os.path.join(r, 'regex.hpp'), os.path.join(r, 'lr1.hpp')], RX_FLAGS)

SCALE_FLAGS = ['-std=c++17', '-O1', '-ftemplate-depth=8192', '-DCTPG_VERIF', '-fno-access-control', '-I' + os.path.join(REPO, 'include'), '-I' + os.path.join(VERIF, 'engines')]

def build_scale(tier):
    """E-SCALE: one executable per family instance (gen/scale_gen.py), built in parallel and cached by content. Returns {family: exe}
    or ('COMPILE-FAIL', text)."""
    gen = os.path.join(VERIF, 'gen', 'scale_gen.py')
    r = sh([sys.executable, gen, 'list', tier])
    if r.returncode != 0: harness_error('scale generator failed: ' + r.stderr)
    fams = r.stdout.split()
    deps = [os.path.join(VERIF, 'engines', 'scale_main.hpp'), os.path.join(VERIF, 'engines', 'jsonw.hpp'), os.path.join(VERIF, 'ref', 'lr1_dyn.hpp'), gen]
    srcdir = os.path.join(BUILD, 'scale_src%s' % (('-%d' % os.getpid()) if os.environ.get('VERIF_REPO') else '')); os.makedirs(srcdir, exist_ok=True)
    def one(f):
        src = os.path.join(srcdir, f + '.cpp')
        tmp = src + '.new%d' % os.getpid()
        g = sh([sys.executable, gen, 'emit', f, tmp])
        if g.returncode != 0: return f, ('COMPILE-FAIL', 'generator: ' + g.stderr)
        os.replace(tmp, src)
        return f, build_single('scale_' + f, src, deps, SCALE_FLAGS)
    out = {}
    with ThreadPoolExecutor(max_workers=NCPU) as ex:
        for f, e in ex.map(one, fams):
            if isinstance(e, tuple): return e
            out[f] = e
    return out

BIG_DEFS = ['-DREF_MAXT=12', '-DREF_MAXR=24', '-DREF_MAXNT=8', '-DREF_MAXL=6']

def build_gram(setname):
    flags = GRAM_FLAGS + (BIG_DEFS if setname == 'big' else [])
    srcs = [os.path.join(VERIF, 'engines', f) for f in ('gram_frame.hpp', 'gram_main.cpp', 'jsonw.hpp')] + [os.path.join(VERIF, 'ref', 'lr1.hpp'), os.path.join(VERIF, 'gen', 'gram_frames.py')]
    d = build_dir('gram_' + setname, srcs, flags)
    exe = os.path.join(d, 'gram')
    if os.path.exists(exe): return exe
    tmp = d + '.tmp%d' % os.getpid()
    shutil.rmtree(tmp, ignore_errors=True); os.makedirs(tmp)
    ntus = 4 if setname == 'big' else max(NCPU * 2, 8)
    if setname == 'lift': flags = flags + ['-DREF_MAXT=4']
    r = sh([sys.executable, os.path.join(VERIF, 'gen', 'gram_frames.py'), setname, tmp, str(ntus)])
    if r.returncode != 0: harness_error('frame generation failed: ' + r.stderr)
    jobs = []
    for k in range(ntus):
        src = os.path.join(tmp, 'frames_%02d.cpp' % k)
        jobs.append((['g++'] + flags + ['-c', src, '-o', src[:-4] + '.o'], src + '.log'))
    jobs.append((['g++'] + [f if f != '-O1' else '-O2' for f in flags] + ['-c', os.path.join(VERIF, 'engines', 'gram_main.cpp'), '-o', os.path.join(tmp, 'gram_main.o')], os.path.join(tmp, 'main.log')))
    failed = compile_many(jobs)
    if failed:
        msg = open(failed[0]).read()[-3000:]
        shutil.rmtree(tmp, ignore_errors=True)
        return ('COMPILE-FAIL', msg)
    r = sh(['g++', '-pthread', '-o', os.path.join(tmp, 'gram')] + sorted(glob.glob(os.path.join(tmp, '*.o'))))
    if r.returncode != 0: harness_error('link failed: ' + r.stderr[-2000:])
    for f in glob.glob(os.path.join(tmp, '*.o')) + glob.glob(os.path.join(tmp, 'frames_*.cpp')): os.remove(f)
    if os.path.exists(d): shutil.rmtree(tmp, ignore_errors=True)
    else: os.rename(tmp, d)
    return exe

# ----------------------------------------------------------------------------- known findings
def load_known():
    """known[(prop, key)] = description; a finding may carry instances=<file>: one instance key per line, each
    mapping to the finding's family key (instances[(prop, instance_key)] = family key)."""
    known = {}; instances = {}
    path = os.path.join(VERIF, 'known_findings.txt')
    if os.path.exists(path):
        for line in open(path):
            line = line.strip()
            m = re.match(r'finding:\s+property=(\S+)\s+key=(\S+)\s+(?:instances=(\S+)\s+)?(.*)', line)
            if not m: continue
            prop, key, inst, desc = m.groups()
            known[(prop, key)] = desc
            if inst:
                ip = os.path.join(VERIF, inst)
                if os.path.exists(ip):
                    for l in open(ip):
                        l = l.strip()
                        if l and not l.startswith('#'): instances[(prop, l.split()[0])] = key
    return known, instances

# ----------------------------------------------------------------------------- gram engine runs
def run_shards(exe, args, outdir, nshards=None, timeout=None):
    nshards = nshards or NCPU
    os.makedirs(outdir, exist_ok=True)
    procs = []
    for k in range(nshards):
        out = os.path.join(outdir, 'shard%02d.json' % k)
        for f in (out, out + '.crash'):
            if os.path.exists(f): os.remove(f)
        procs.append((k, out, subprocess.Popen([exe] + args + ['--shard', '%d/%d' % (k, nshards), '--out', out], stdout=subprocess.PIPE, stderr=subprocess.PIPE, universal_newlines=True)))
    results = []
    for k, out, p in procs:
        try:
            so, se = p.communicate(timeout=timeout)
        except subprocess.TimeoutExpired:
            p.kill(); so, se = p.communicate()
            results.append({'shard': k, 'timeout': True}); continue
        if p.returncode in (3, 4) and os.path.exists(out + '.crash'):
            results.append({'shard': k, 'crash': json.load(open(out + '.crash'))}); continue
        if p.returncode != 0 or not os.path.exists(out):
            harness_error('engine shard %d exited %s: %s' % (k, p.returncode, se[-1500:]))
        results.append(json.load(open(out)))
    return results

def merge(results):
    m = {'counters': {}, 'violation_counts': {}, 'violations': [], 'samples': {}, 'outcomes': {}, 'deadline_hit': False, 'crashes': [], 'timeouts': 0}
    for r in results:
        if 'crash' in r: m['crashes'].append(r['crash']); continue
        if r.get('timeout'): m['timeouts'] += 1; continue
        for k, v in r['counters'].items(): m['counters'][k] = m['counters'].get(k, 0) + v
        for k, v in r['violation_counts'].items(): m['violation_counts'][k] = m['violation_counts'].get(k, 0) + v
        m['violations'] += r['violations']
        for k, v in r['samples'].items(): m['samples'].setdefault(k, []); m['samples'][k] += v
        for k, v in r['outcomes'].items(): m['outcomes'].setdefault(k, set()); m['outcomes'][k] |= set(v)
        m['deadline_hit'] = m['deadline_hit'] or r['deadline_hit']
    return m

