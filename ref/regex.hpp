// Reference model for regular expressions (E-RX). Shares no code with ctpg.
//   Ast      : pattern abstract syntax, printed to the documented concrete syntax with minimal parentheses
//   RefDfa   : Thompson NFA + lazy subset construction over byte classes (full 256-value alphabet)
#pragma once
#include <array>
#include <bitset>
#include <cstdint>
#include <map>
#include <memory>
#include <string>
#include <vector>

namespace rx {

using CharSet = std::bitset<256>;

struct Atom { std::string text; CharSet set; };

enum Op { LEAF, STAR, PLUS, OPT, REP, GROUP, CAT, ALT };

struct Ast {
    Op op = LEAF; int atom = 0; int n = 0;   // n: repetition count
    int l = -1, r = -1;                      // children (indices into the pool)
};

struct AstPool {
    std::vector<Ast> nodes;
    int leaf(int a) { nodes.push_back(Ast{LEAF, a, 0, -1, -1}); return (int)nodes.size() - 1; }
    int un(Op op, int c, int n = 0) { nodes.push_back(Ast{op, 0, n, c, -1}); return (int)nodes.size() - 1; }
    int bin(Op op, int l, int r) { nodes.push_back(Ast{op, 0, 0, l, r}); return (int)nodes.size() - 1; }
};

// concrete syntax: alt is right-nested without parentheses (a|b|c == a|(b|c)), concatenation left-nested,
// a quantifier applies to a primary (atom or group)
inline std::string print(const AstPool& p, const std::vector<Atom>& atoms, int id) {
    const Ast& a = p.nodes[id];
    auto par = [&](int c) { return "(" + print(p, atoms, c) + ")"; };
    switch (a.op) {
        case LEAF: return atoms[a.atom].text;
        case GROUP: return par(a.l);
        case STAR: case PLUS: case OPT: case REP: {
            const Ast& c = p.nodes[a.l];
            std::string in = (c.op == LEAF || c.op == GROUP) ? print(p, atoms, a.l) : par(a.l);
            if (a.op == STAR) return in + "*"; if (a.op == PLUS) return in + "+"; if (a.op == OPT) return in + "?";
            return in + "{" + std::to_string(a.n) + "}";
        }
        case CAT: {
            const Ast& L = p.nodes[a.l]; const Ast& R = p.nodes[a.r];
            std::string ls = L.op == ALT ? par(a.l) : print(p, atoms, a.l);
            std::string rs = (R.op == ALT || R.op == CAT) ? par(a.r) : print(p, atoms, a.r);
            return ls + rs;
        }
        case ALT: {
            const Ast& L = p.nodes[a.l];
            std::string ls = L.op == ALT ? par(a.l) : print(p, atoms, a.l);
            return ls + "|" + print(p, atoms, a.r);
        }
    }
    return "";
}

// ---------------------------------------------------------------- NFA
struct Nfa {
    struct St { int set = -1; int to = -1; int e1 = -1, e2 = -1; };   // set: index into sets (byte transition) ; e1,e2 epsilon
    std::vector<St> st; std::vector<CharSet> sets;
    int start = -1, accept = -1;
    int add() { st.push_back(St{}); return (int)st.size() - 1; }
    void eps(int a, int b) { if (st[a].e1 < 0) st[a].e1 = b; else if (st[a].e2 < 0) st[a].e2 = b; else { int m = add(); st[m].e1 = st[a].e2; st[m].e2 = b; st[a].e2 = m; } }
};
struct Frag { int s, e; };

inline Frag build(Nfa& n, const AstPool& p, const std::vector<Atom>& atoms, int id) {
    const Ast& a = p.nodes[id];
    switch (a.op) {
        case LEAF: { int s = n.add(), e = n.add(); n.sets.push_back(atoms[a.atom].set); n.st[s].set = (int)n.sets.size() - 1; n.st[s].to = e; return {s, e}; }
        case GROUP: return build(n, p, atoms, a.l);
        case STAR: { Frag c = build(n, p, atoms, a.l); int s = n.add(), e = n.add(); n.eps(s, c.s); n.eps(s, e); n.eps(c.e, c.s); n.eps(c.e, e); return {s, e}; }
        case PLUS: { Frag c = build(n, p, atoms, a.l); int s = n.add(), e = n.add(); n.eps(s, c.s); n.eps(c.e, c.s); n.eps(c.e, e); return {s, e}; }
        case OPT: { Frag c = build(n, p, atoms, a.l); int s = n.add(), e = n.add(); n.eps(s, c.s); n.eps(s, e); n.eps(c.e, e); return {s, e}; }
        case REP: {
            int s = n.add(); int cur = s;
            for (int k = 0; k < a.n; ++k) { Frag c = build(n, p, atoms, a.l); n.eps(cur, c.s); cur = c.e; }
            int e = n.add(); n.eps(cur, e); return {s, e};
        }
        case CAT: { Frag l = build(n, p, atoms, a.l), r = build(n, p, atoms, a.r); n.eps(l.e, r.s); return {l.s, r.e}; }
        case ALT: { Frag l = build(n, p, atoms, a.l), r = build(n, p, atoms, a.r); int s = n.add(), e = n.add(); n.eps(s, l.s); n.eps(s, r.s); n.eps(l.e, e); n.eps(r.e, e); return {s, e}; }
    }
    return {0, 0};
}

// ---------------------------------------------------------------- DFA by subset construction (lazy), over byte classes
struct RefDfa {
    Nfa nfa;
    std::array<uint8_t, 256> cls{}; int ncls = 0; std::vector<int> rep;   // byte -> class, class -> representative byte
    std::map<std::vector<int>, int> ids; std::vector<std::vector<int>> sets; std::vector<std::vector<int>> trans; std::vector<char> acc;
    static constexpr int DEAD = -1;

    void closure(std::vector<int>& v) const {
        std::vector<char> in(nfa.st.size(), 0); std::vector<int> stack;
        for (int x : v) if (!in[x]) { in[x] = 1; stack.push_back(x); }
        while (!stack.empty()) { int x = stack.back(); stack.pop_back(); for (int y : {nfa.st[x].e1, nfa.st[x].e2}) if (y >= 0 && !in[y]) { in[y] = 1; stack.push_back(y); } }
        v.clear(); for (size_t i = 0; i < in.size(); ++i) if (in[i]) v.push_back((int)i);
    }
    int intern(std::vector<int> v) {
        if (v.empty()) return DEAD;
        auto it = ids.find(v); if (it != ids.end()) return it->second;
        int id = (int)sets.size(); ids[v] = id; sets.push_back(v); trans.push_back(std::vector<int>(ncls, -2));
        bool a = false; for (int x : v) if (x == nfa.accept) a = true; acc.push_back(a);
        return id;
    }
    void init(const AstPool& p, const std::vector<Atom>& atoms, int root) {
        nfa = Nfa{}; ids.clear(); sets.clear(); trans.clear(); acc.clear();
        Frag f = build(nfa, p, atoms, root); nfa.start = f.s; nfa.accept = f.e;
        // byte classes: bytes with the same membership in every atom set of this pattern
        std::map<std::vector<bool>, int> sig; ncls = 0; rep.clear();
        for (int b = 0; b < 256; ++b) { std::vector<bool> s; for (auto& cs : nfa.sets) s.push_back(cs[b]); auto it = sig.find(s); if (it == sig.end()) { sig[s] = ncls; rep.push_back(b); cls[b] = uint8_t(ncls++); } else cls[b] = uint8_t(it->second); }
        std::vector<int> s0{nfa.start}; closure(s0); intern(s0);
    }
    int step(int s, int byte) {
        if (s == DEAD) return DEAD;
        int c = cls[byte];
        if (trans[s][c] != -2) return trans[s][c];
        std::vector<int> nx;
        for (int x : sets[s]) if (nfa.st[x].set >= 0 && nfa.sets[nfa.st[x].set][byte]) nx.push_back(nfa.st[x].to);
        closure(nx);
        int t = intern(nx);
        trans[s][c] = t;
        return t;
    }
    bool accepting(int s) const { return s != DEAD && acc[s]; }
    bool match(const std::string& w) { int s = 0; for (unsigned char ch : w) { s = step(s, ch); if (s == DEAD) return false; } return accepting(s); }
    // longest non-negative prefix length of w[from..] in the language, or -1
    int longest(const std::string& w, size_t from) { int s = 0, best = accepting(0) ? 0 : -1; for (size_t i = from; i < w.size(); ++i) { s = step(s, (unsigned char)w[i]); if (s == DEAD) break; if (accepting(s)) best = int(i - from + 1); } return best; }
};

} // namespace rx
