// Reference models for the grammar-space explorer (E-GRAM). Shares no code with ctpg.
//  - Gram: a plain context-free grammar with optional precedence declarations
//  - LR1:  textbook canonical LR(1) collection (fixpoint FIRST/nullable, closure, goto),
//          optionally with the *documented* shift/reduce resolution applied
//  - Lang: CFG membership by language fixpoint (independent of any LR notion)
//  - drive(): the documented LR driver + the documented error-recovery procedure, generic over a table
#pragma once
#include <cstdint>
#include <cstring>
#include <cstdio>
#include <cstdlib>
#include <string>
#include <vector>
#include <algorithm>

namespace ref {

#ifndef REF_MAXR
#define REF_MAXR 8
#endif
#ifndef REF_MAXNT
#define REF_MAXNT 4
#endif
#ifndef REF_MAXT
#define REF_MAXT 4
#endif
constexpr int MAXR = REF_MAXR;   // user rules (capacities can be raised per translation unit with -DREF_MAX...)
#ifndef REF_MAXL
#define REF_MAXL 5
#endif
constexpr int MAXL = REF_MAXL;   // right-side length
constexpr int MAXNT = REF_MAXNT;  // user nonterminals
constexpr int MAXT = REF_MAXT;   // user terminals
constexpr int TERM = 16;  // symbol code of terminal 0; nonterminal k has code k (k == NT is the augmented root)

enum Assoc { NONE = 0, LTOR = 1, RTOL = 2 };

struct Gram {
    int NT = 0, T = 0, R = 0;
    int lhs[MAXR + 1] = {};
    int n[MAXR + 1] = {};
    int rhs[MAXR + 1][MAXL] = {};
    int tprec[MAXT + 2] = {};
    int tassoc[MAXT + 2] = {};
    int rprec[MAXR + 1] = {};   // explicit [n]; 0 = absent

    int eof() const { return T; }
    int err() const { return T + 1; }
    int nterms() const { return T + 2; }          // including eof and error
    static bool is_term(int s) { return s >= TERM; }
    static int term_of(int s) { return s - TERM; }
    void finish() {               // install the augmented root rule as rule R
        for (int i = 0; i < R; ++i) if (n[i] > MAXL) { std::fprintf(stderr, "HARNESS ERROR: rule longer than REF_MAXL\n"); std::abort(); }
        if (NT > MAXNT || T > MAXT || R > MAXR) { std::fprintf(stderr, "HARNESS ERROR: reference grammar exceeds REF_MAX* capacities\n"); std::abort(); }
        lhs[R] = NT; n[R] = 1; rhs[R][0] = 0; rprec[R] = 0;
        tprec[eof()] = tprec[err()] = 0; tassoc[eof()] = tassoc[err()] = NONE;
    }
    bool has_error_symbol() const {
        for (int i = 0; i < R; ++i) for (int j = 0; j < n[i]; ++j) if (rhs[i][j] == TERM + err()) return true;
        return false;
    }
    std::string sym_name(int s) const {
        if (!is_term(s)) return s == NT ? std::string("##") : std::string("N") + char('0' + s);
        int t = term_of(s);
        if (t == eof()) return "<eof>";
        if (t == err()) return "error";
        return std::string(1, char('a' + t));
    }
    std::string text() const {
        std::string o;
        for (int i = 0; i < R; ++i) {
            if (i) o += "; ";
            o += sym_name(lhs[i]) + " ->";
            for (int j = 0; j < n[i]; ++j) o += " " + sym_name(rhs[i][j]);
            if (n[i] == 0) o += " eps";
            if (rprec[i]) o += " [" + std::to_string(rprec[i]) + "]";
        }
        return o;
    }
    std::string prec_text() const {
        std::string o;
        for (int t = 0; t < T; ++t) {
            if (t) o += " ";
            o += std::string(1, char('a' + t)) + ":" + std::to_string(tprec[t]) + (tassoc[t] == LTOR ? "L" : tassoc[t] == RTOL ? "R" : "N");
        }
        return o;
    }
    int last_term(int r) const {
        for (int j = n[r] - 1; j >= 0; --j) if (is_term(rhs[r][j])) return term_of(rhs[r][j]);
        return -1;
    }
    int rule_prec(int r) const {
        if (rprec[r] != 0) return rprec[r];
        int lt = last_term(r);
        return lt < 0 ? 0 : tprec[lt];
    }
    int rule_assoc(int r) const {
        int lt = last_term(r);
        return lt < 0 ? NONE : tassoc[lt];
    }
    // the documented rule: reduce iff prec(r) > prec(t), or equal and r's last term is left associative
    bool prefer_reduce(int r, int t) const {
        int rp = rule_prec(r), tp = tprec[t];
        if (rp > tp) return true;
        if (rp == tp && rule_assoc(r) == LTOR) return true;
        return false;
    }
};

// ---------------------------------------------------------------- item sets
constexpr int ITEM_SPACE = (MAXR + 1) * (MAXL + 1) * (MAXT + 2);
constexpr int ITEM_WORDS = (ITEM_SPACE + 63) / 64;

struct ItemSet {
    uint64_t w[ITEM_WORDS] = {};
    bool test(int i) const { return (w[i >> 6] >> (i & 63)) & 1; }
    void set(int i) { w[i >> 6] |= uint64_t(1) << (i & 63); }
    bool operator==(const ItemSet& o) const { return std::memcmp(w, o.w, sizeof w) == 0; }
    bool operator!=(const ItemSet& o) const { return !(*this == o); }
    bool empty() const { for (auto x : w) if (x) return false; return true; }
    int count() const { int c = 0; for (auto x : w) c += __builtin_popcountll(x); return c; }
};
inline int item_code(int rule, int dot, int la) { return (rule * (MAXL + 1) + dot) * (MAXT + 2) + la; }
inline void item_decode(int c, int& rule, int& dot, int& la) { la = c % (MAXT + 2); c /= (MAXT + 2); dot = c % (MAXL + 1); rule = c / (MAXL + 1); }

enum Kind : uint8_t { K_ERROR = 0, K_SHIFT, K_REDUCE, K_ACCEPT, K_RR };

struct Cell {
    // raw content
    bool shift = false; int shift_to = -1;   // shift_to valid only when the edge is followed
    int nred = 0; int red[4] = {};             // distinct non-root reductions on this lookahead (first 4 kept)
    bool accept = false;
    // verdict after the documented resolution
    Kind kind = K_ERROR; int arg = -1;
    bool sr = false;       // shift/reduce conflict (exactly one reduction, no accept)
    bool rr = false;       // >= 2 reductions
    bool acc_conf = false; // accept together with a reduction (shift cannot occur on <eof>)
    bool conflict() const { return sr || rr || acc_conf; }
};

struct RState {
    ItemSet items;              // full closure
    int go[MAXNT + 1] = {};     // goto on nonterminals (-1 none)
    Cell cell[MAXT + 2];
};

struct LR1 {
    std::vector<RState> st;
    bool any_sr = false, any_rr = false, any_acc = false;
    bool conflict_free() const { return !any_sr && !any_rr && !any_acc; }
    bool overflow = false;      // state explosion guard hit (never expected inside the bounds)
};

struct Analysis {
    bool nullable[MAXNT + 1] = {};
    uint32_t first[MAXNT + 1] = {};   // bitmask over terminals (incl. error)
};

inline Analysis analyse(const Gram& g) {
    Analysis a;
    bool ch = true;
    while (ch) {
        ch = false;
        for (int r = 0; r <= g.R; ++r) {
            int A = g.lhs[r];
            bool all_null = true;
            uint32_t f = a.first[A];
            for (int j = 0; j < g.n[r]; ++j) {
                int s = g.rhs[r][j];
                if (Gram::is_term(s)) { f |= 1u << Gram::term_of(s); all_null = false; break; }
                f |= a.first[s];
                if (!a.nullable[s]) { all_null = false; break; }
            }
            if (f != a.first[A]) { a.first[A] = f; ch = true; }
            if (all_null && !a.nullable[A]) { a.nullable[A] = true; ch = true; }
        }
    }
    return a;
}

// every nonterminal reachable from the root derives some terminal string (canonical LR(1) then has the correct-prefix property)
inline bool is_reduced(const Gram& g) {
    bool prod[MAXNT + 1] = {}, reach[MAXNT + 1] = {};
    bool ch = true;
    while (ch) { ch = false; for (int r = 0; r <= g.R; ++r) { if (prod[g.lhs[r]]) continue; bool ok = true; for (int j = 0; j < g.n[r]; ++j) { int s = g.rhs[r][j]; if (Gram::is_term(s)) { if (Gram::term_of(s) >= g.T) { /* error symbol: treated as productive */ } } else if (!prod[s]) ok = false; } if (ok) { prod[g.lhs[r]] = true; ch = true; } } }
    reach[g.NT] = true; ch = true;
    while (ch) { ch = false; for (int r = 0; r <= g.R; ++r) if (reach[g.lhs[r]]) for (int j = 0; j < g.n[r]; ++j) { int s = g.rhs[r][j]; if (!Gram::is_term(s) && !reach[s]) { reach[s] = true; ch = true; } } }
    for (int A = 0; A <= g.NT; ++A) if (reach[A] && !prod[A]) return false;
    return true;
}

inline void closure(const Gram& g, const Analysis& an, ItemSet& s) {
    int work[ITEM_SPACE]; int nw = 0;
    for (int i = 0; i < ITEM_SPACE; ++i) if (s.test(i)) work[nw++] = i;
    while (nw) {
        int c = work[--nw];
        int r, d, la; item_decode(c, r, d, la);
        if (d >= g.n[r]) continue;
        int B = g.rhs[r][d];
        if (Gram::is_term(B)) continue;
        // FIRST(beta la)
        uint32_t f = 0; bool all_null = true;
        for (int j = d + 1; j < g.n[r]; ++j) {
            int x = g.rhs[r][j];
            if (Gram::is_term(x)) { f |= 1u << Gram::term_of(x); all_null = false; break; }
            f |= an.first[x];
            if (!an.nullable[x]) { all_null = false; break; }
        }
        if (all_null) f |= 1u << la;
        for (int q = 0; q <= g.R; ++q) {
            if (g.lhs[q] != B) continue;
            for (int t = 0; t < g.nterms(); ++t) if (f >> t & 1) {
                int nc = item_code(q, 0, t);
                if (!s.test(nc)) { s.set(nc); work[nw++] = nc; }
            }
        }
    }
}

// resolve == false: the canonical collection, every edge followed (decides "is LR(1)")
// resolve == true : edges out of cells whose documented resolution is "reduce", and out of cells whose
//                   behaviour is undefined (R/R, accept/reduce), are not followed - that is the automaton a
//                   parser obeying the documentation can reach.
inline LR1 build_lr1(const Gram& g, const Analysis& an, bool resolve, int max_states = 400) {
    LR1 L;
    RState s0; s0.items.set(item_code(g.R, 0, g.eof())); closure(g, an, s0.items);
    L.st.push_back(s0);
    for (size_t cur = 0; cur < L.st.size(); ++cur) {
        if ((int)L.st.size() > max_states) { L.overflow = true; break; }
        ItemSet items = L.st[cur].items;
        ItemSet kern_nt[MAXNT + 1], kern_t[MAXT + 2];
        Cell cells[MAXT + 2];
        for (int c = 0; c < ITEM_SPACE; ++c) if (items.test(c)) {
            int r, d, la; item_decode(c, r, d, la);
            if (d < g.n[r]) {
                int x = g.rhs[r][d];
                int nc = item_code(r, d + 1, la);
                if (Gram::is_term(x)) { kern_t[Gram::term_of(x)].set(nc); cells[Gram::term_of(x)].shift = true; }
                else kern_nt[x].set(nc);
            } else {
                Cell& ce = cells[la];
                if (r == g.R) ce.accept = true;
                else {
                    bool dup = false;
                    for (int k = 0; k < ce.nred && k < 4; ++k) if (ce.red[k] == r) dup = true;
                    if (!dup) { if (ce.nred < 4) ce.red[ce.nred] = r; ce.nred++; }
                }
            }
        }
        auto target = [&](ItemSet k) -> int {
            closure(g, an, k);
            for (size_t i = 0; i < L.st.size(); ++i) if (L.st[i].items == k) return (int)i;
            RState ns; ns.items = k; L.st.push_back(ns);
            return (int)L.st.size() - 1;
        };
        for (int A = 0; A <= g.NT; ++A) {
            int to = kern_nt[A].empty() ? -1 : target(kern_nt[A]);
            L.st[cur].go[A] = to;
        }
        for (int t = 0; t < g.nterms(); ++t) {
            Cell& ce = cells[t];
            bool follow = ce.shift;
            if (ce.accept && (ce.nred > 0 || ce.shift)) { ce.acc_conf = true; L.any_acc = true; ce.kind = K_ACCEPT; if (resolve) follow = false; }
            else if (ce.nred >= 2) { ce.rr = true; L.any_rr = true; ce.kind = K_RR; if (resolve) follow = false; }
            else if (ce.nred == 1 && ce.shift) {
                ce.sr = true; L.any_sr = true;
                if (g.prefer_reduce(ce.red[0], t)) { ce.kind = K_REDUCE; ce.arg = ce.red[0]; if (resolve) follow = false; }
                else ce.kind = K_SHIFT;
            }
            else if (ce.accept) ce.kind = K_ACCEPT;
            else if (ce.nred == 1) { ce.kind = K_REDUCE; ce.arg = ce.red[0]; }
            else if (ce.shift) ce.kind = K_SHIFT;
            if (follow) { ce.shift_to = target(kern_t[t]); if (ce.kind == K_SHIFT) ce.arg = ce.shift_to; }
            L.st[cur].cell[t] = ce;
        }
    }
    return L;
}

// ---------------------------------------------------------------- CFG membership (language fixpoint)
// All strings of length <= n over T letters are numbered; Lang computes, for every nonterminal, the set of
// such strings it derives, by iterating  L(A) |= L(X1) . L(X2) ... L(Xk)  to a fixpoint. Handles empty rules,
// unit cycles and unproductive symbols; knows nothing about LR.
struct StrSpace {
    int T = 0, n = 0, count = 0;
    std::vector<int> len, cat;          // cat[a*count+b] = id of concatenation or -1
    std::vector<std::string> str;       // as letters 'a'+k
    void init(int T_, int n_, bool with_cat = true) {
        T = T_; n = n_; str.clear(); str.push_back("");
        size_t lo = 0;
        for (int l = 1; l <= n; ++l) { size_t hi = str.size(); for (size_t i = lo; i < hi; ++i) for (int c = 0; c < T; ++c) str.push_back(str[i] + char('a' + c)); lo = hi; }
        count = (int)str.size(); len.resize(count);
        for (int i = 0; i < count; ++i) len[i] = (int)str[i].size();
        cat.clear();
        if (!with_cat) return;   // the concatenation table (count^2 entries) is only needed by Lang
        cat.assign((size_t)count * count, -1);
        for (int a = 0; a < count; ++a) for (int b = 0; b < count; ++b) if (len[a] + len[b] <= n) cat[(size_t)a * count + b] = id_of(str[a] + str[b]);
    }
    int id_of(const std::string& s) const {
        // strings are listed by length, then lexicographically in base T
        int base = 0, pw = 1;
        for (size_t l = 0; l < s.size(); ++l) { base += pw; pw *= T; }
        int v = 0; for (char ch : s) v = v * T + (ch - 'a');
        return base + v;
    }
};

struct Lang {
    std::vector<std::vector<char>> in;   // in[A][string id]
    void compute(const Gram& g, const StrSpace& sp) {
        in.assign(g.NT + 1, std::vector<char>(sp.count, 0));
        bool ch = true;
        std::vector<int> cur, nxt;
        while (ch) {
            ch = false;
            for (int r = 0; r <= g.R; ++r) {
                cur.assign(1, 0);   // {""}
                for (int j = 0; j < g.n[r] && !cur.empty(); ++j) {
                    int x = g.rhs[r][j];
                    nxt.clear();
                    if (Gram::is_term(x)) {
                        int t = Gram::term_of(x);
                        if (t >= g.T) { cur.clear(); break; }   // error/eof never occur in input
                        int one = 1 + t;
                        for (int a : cur) { int c = sp.cat[(size_t)a * sp.count + one]; if (c >= 0) nxt.push_back(c); }
                    } else {
                        const auto& lx = in[x];
                        for (int a : cur) for (int b = 0; b < sp.count; ++b) if (lx[b]) { int c = sp.cat[(size_t)a * sp.count + b]; if (c >= 0) nxt.push_back(c); }
                        std::sort(nxt.begin(), nxt.end()); nxt.erase(std::unique(nxt.begin(), nxt.end()), nxt.end());
                    }
                    cur.swap(nxt);
                }
                auto& la = in[g.lhs[r]];
                for (int a : cur) if (!la[a]) { la[a] = 1; ch = true; }
            }
        }
    }
    bool member(int id) const { return in[0][id] != 0; }
};

// ---------------------------------------------------------------- documented driver (+ recovery)
struct Act { Kind kind; int arg; };

struct Node { int kind; int a, b, c; std::vector<int> kids; };  // kind 0: term(a=term idx,b=offset,c=len) 1: rule(a=rule) 2: error value

struct Run {
    bool ok = false;            // value returned
    bool undefined = false;     // an R/R cell (or other undefined behaviour) was consulted: no verdict
    bool horizon = false;       // step limit reached
    bool lex_error = false;     // stopped because the next term could not be lexed
    int nerrors = 0;
    std::vector<int> err_tok;   // token index of each reported syntax error (== tokens.size() for <eof>)
    std::vector<int> err_term;  // offending term
    std::vector<Node> nodes;
    int root = -1;
    std::vector<int> reductions;   // rule sequence, in order performed
    std::vector<int> trace_states; // state stack tops after each action (for debugging)
    int max_depth = 0;             // highest number of entries on the state stack
    int discarded_terms = 0, popped_states = 0, recoveries = 0;
    int terms_examined = 0;        // how many terms (including <eof> or the unlexable one) the driver asked for

    std::string show(int id) const {
        const Node& nd = nodes[id];
        if (nd.kind == 0) return "t" + std::to_string(nd.a) + "@" + std::to_string(nd.b) + "+" + std::to_string(nd.c);
        if (nd.kind == 2) return "E";
        std::string o = "r" + std::to_string(nd.a) + "(";
        for (size_t i = 0; i < nd.kids.size(); ++i) { if (i) o += ","; o += show(nd.kids[i]); }
        return o + ")";
    }
};

struct Tok { int term, off, len; };

// Table concept: Act action(int state, int term) const; int go(int state, int nt) const;
// fixed_recovery: true = the documented procedure (offer `error` to the current state first)
template<class Table>
Run drive(const Gram& g, const Table& tb, const std::vector<Tok>& toks, int step_limit = 4000, bool lex_fails_after_last = false) {
    Run R;
    std::vector<int> st{0}, vals;
    size_t i = 0; bool recovery = false, consume = false; int steps = 0;
    int eof_off = toks.empty() ? 0 : toks.back().off + toks.back().len;
    while (true) {
        if (++steps > step_limit) { R.horizon = true; return R; }
        R.max_depth = std::max(R.max_depth, (int)st.size());
        if (!recovery) R.terms_examined = std::max(R.terms_examined, (int)i + 1);
        if (!recovery && i >= toks.size() && lex_fails_after_last) { R.lex_error = true; return R; }   // the lexer cannot produce the next term
        int t = recovery ? g.err() : (i < toks.size() ? toks[i].term : g.eof());
        Act a = tb.action(st.back(), t);
        if (a.kind == K_ERROR) {
            if (consume) {
                if (t == g.eof()) return R;             // input ended while discarding
                ++i; ++R.discarded_terms; continue;
            }
            if (!recovery) {
                R.nerrors++; R.err_tok.push_back((int)i); R.err_term.push_back(t);
                recovery = true; ++R.recoveries;
                continue;                               // offer `error` to the current state first
            }
            st.pop_back(); if (!vals.empty()) vals.pop_back(); ++R.popped_states;
            if (st.empty()) return R;                   // no state accepts `error`
            continue;
        }
        if (consume) consume = false;
        if (a.kind == K_SHIFT) {
            if (t == g.err()) {
                st.push_back(a.arg); R.nodes.push_back(Node{2, 0, 0, 0, {}}); vals.push_back((int)R.nodes.size() - 1);
                recovery = false; consume = true;
            } else {
                st.push_back(a.arg);
                R.nodes.push_back(Node{0, t, toks[i].off, toks[i].len, {}}); vals.push_back((int)R.nodes.size() - 1);
                ++i;
            }
        } else if (a.kind == K_REDUCE) {
            int r = a.arg, k = g.n[r];
            if ((int)st.size() <= k || (int)vals.size() < k) { R.undefined = true; return R; }
            Node nd{1, r, 0, 0, {}};
            nd.kids.assign(vals.end() - k, vals.end());
            st.resize(st.size() - k); vals.resize(vals.size() - k);
            int to = tb.go(st.back(), g.lhs[r]);
            if (to < 0) { R.undefined = true; return R; }
            st.push_back(to);
            R.nodes.push_back(nd); vals.push_back((int)R.nodes.size() - 1);
            R.reductions.push_back(r);
        } else if (a.kind == K_ACCEPT) {
            R.ok = true; R.root = vals.empty() ? -1 : vals.front();
            return R;
        } else { R.undefined = true; return R; }
    }
    (void)eof_off;
}

struct RefTable {
    const LR1& L;
    Act action(int s, int t) const { const Cell& c = L.st[s].cell[t]; return Act{c.kind, c.arg}; }
    int go(int s, int A) const { return L.st[s].go[A]; }
};

} // namespace ref
