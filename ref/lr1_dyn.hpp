// Reference models without fixed capacities, for the scale sweeps (E-SCALE): grammars with hundreds of terminals, rules,
// nonterminals or states. Same definitions as ref/lr1.hpp (textbook canonical LR(1), the documented shift/reduce
// resolution, the documented driver with the documented recovery procedure), written separately with dynamic containers.
// Shares no code with ctpg.
#pragma once
#include <algorithm>
#include <cstdint>
#include <map>
#include <string>
#include <vector>

namespace dyn {

constexpr int TB = 1 << 20;           // symbol code of terminal 0; nonterminal k has code k (k == NT is the augmented root)
enum Assoc { NONE = 0, LTOR = 1, RTOL = 2 };
enum Kind { K_ERROR = 0, K_SHIFT, K_REDUCE, K_ACCEPT, K_RR };

struct Gram {
    int NT = 0, T = 0, R = 0;                       // user nonterminals / terminals / rules
    std::vector<int> lhs; std::vector<std::vector<int>> rhs;
    std::vector<long long> tprec; std::vector<int> tassoc;   // per terminal (user terminals, then <eof>, then error)
    std::vector<long long> rprec; std::vector<char> has_rprec;
    std::vector<std::string> tname, ntname;
    int eof() const { return T; }
    int err() const { return T + 1; }
    int nterms() const { return T + 2; }
    static bool is_term(int s) { return s >= TB; }
    static int term_of(int s) { return s - TB; }
    void rule(int l, std::vector<int> r) { lhs.push_back(l); rhs.push_back(std::move(r)); rprec.push_back(0); has_rprec.push_back(0); ++R; }
    void rule_p(int l, std::vector<int> r, long long p) { rule(l, std::move(r)); rprec.back() = p; has_rprec.back() = 1; }
    void finish() {    // the augmented root rule is rule R; <eof> and error get their names and default precedence
        lhs.push_back(NT); rhs.push_back({0}); rprec.push_back(0); has_rprec.push_back(0);
        tprec.resize(T + 2, 0); tassoc.resize(T + 2, NONE); tname.resize(T); tname.push_back("<eof>"); tname.push_back("<error_recovery_token>");
        ntname.resize(NT); ntname.push_back("##");
    }
    std::string sym_name(int s) const { return is_term(s) ? tname[term_of(s)] : ntname[s]; }
    int last_term(int r) const { for (int j = (int)rhs[r].size() - 1; j >= 0; --j) if (is_term(rhs[r][j])) return term_of(rhs[r][j]); return -1; }
    long long rule_prec(int r) const { if (has_rprec[r]) return rprec[r]; int lt = last_term(r); return lt < 0 ? 0 : tprec[lt]; }
    bool prefer_reduce(int r, int t) const {     // the documented rule
        long long rp = rule_prec(r), tp = tprec[t];
        if (rp > tp) return true;
        int lt = last_term(r);
        return rp == tp && lt >= 0 && tassoc[lt] == LTOR;
    }
};

struct Item { int r, d, la; bool operator<(const Item& o) const { return r != o.r ? r < o.r : d != o.d ? d < o.d : la < o.la; } bool operator==(const Item& o) const { return r == o.r && d == o.d && la == o.la; } };

struct Cell {
    bool shift = false; int shift_to = -1; std::vector<int> red; bool accept = false;
    Kind kind = K_ERROR; int arg = -1; bool sr = false, rr = false, acc_conf = false;
    bool conflict() const { return sr || rr || acc_conf; }
};
struct State { std::vector<Item> items; std::vector<int> go; std::vector<Cell> cell; };
struct LR1 { std::vector<State> st; bool any_sr = false, any_rr = false, any_acc = false, overflow = false; bool conflict_free() const { return !any_sr && !any_rr && !any_acc; } };

struct Analysis { std::vector<char> nullable; std::vector<std::vector<char>> first; };
inline Analysis analyse(const Gram& g) {
    Analysis a; a.nullable.assign(g.NT + 1, 0); a.first.assign(g.NT + 1, std::vector<char>(g.nterms(), 0));
    for (bool ch = true; ch;) {
        ch = false;
        for (int r = 0; r <= g.R; ++r) {
            int A = g.lhs[r]; bool all_null = true;
            for (int s : g.rhs[r]) {
                if (Gram::is_term(s)) { if (!a.first[A][Gram::term_of(s)]) { a.first[A][Gram::term_of(s)] = 1; ch = true; } all_null = false; break; }
                for (int t = 0; t < g.nterms(); ++t) if (a.first[s][t] && !a.first[A][t]) { a.first[A][t] = 1; ch = true; }
                if (!a.nullable[s]) { all_null = false; break; }
            }
            if (all_null && !a.nullable[A]) { a.nullable[A] = 1; ch = true; }
        }
    }
    return a;
}

inline void closure(const Gram& g, const Analysis& an, const std::vector<std::vector<int>>& rules_of, std::vector<Item>& items) {
    std::map<Item, char> seen; for (auto& i : items) seen[i] = 1;
    std::vector<Item> work = items;
    while (!work.empty()) {
        Item c = work.back(); work.pop_back();
        const auto& rs = g.rhs[c.r];
        if (c.d >= (int)rs.size() || Gram::is_term(rs[c.d])) continue;
        int B = rs[c.d];
        std::vector<char> f(g.nterms(), 0); bool all_null = true;
        for (int j = c.d + 1; j < (int)rs.size(); ++j) {
            int x = rs[j];
            if (Gram::is_term(x)) { f[Gram::term_of(x)] = 1; all_null = false; break; }
            for (int t = 0; t < g.nterms(); ++t) if (an.first[x][t]) f[t] = 1;
            if (!an.nullable[x]) { all_null = false; break; }
        }
        if (all_null) f[c.la] = 1;
        for (int q : rules_of[B]) for (int t = 0; t < g.nterms(); ++t) if (f[t]) { Item n{q, 0, t}; if (!seen.count(n)) { seen[n] = 1; items.push_back(n); work.push_back(n); } }
    }
    std::sort(items.begin(), items.end());
}

// resolve == false: canonical collection, every edge followed; resolve == true: edges out of cells resolved to "reduce"
// or left undefined (R/R, accept/reduce) are not followed - the automaton a parser obeying the documentation can reach
inline LR1 build_lr1(const Gram& g, const Analysis& an, bool resolve, int max_states = 20000) {
    LR1 L; std::vector<std::vector<int>> rules_of(g.NT + 1);
    for (int r = 0; r <= g.R; ++r) rules_of[g.lhs[r]].push_back(r);
    std::map<std::vector<Item>, int> index;
    auto target = [&](std::vector<Item> k) -> int {
        closure(g, an, rules_of, k);
        auto it = index.find(k); if (it != index.end()) return it->second;
        State ns; ns.items = k; L.st.push_back(ns); index[k] = (int)L.st.size() - 1; return (int)L.st.size() - 1;
    };
    target({Item{g.R, 0, g.eof()}});
    for (size_t cur = 0; cur < L.st.size(); ++cur) {
        if ((int)L.st.size() > max_states) { L.overflow = true; break; }
        std::vector<Item> items = L.st[cur].items;
        std::vector<std::vector<Item>> kern_nt(g.NT + 1), kern_t(g.nterms());
        std::vector<Cell> cells(g.nterms());
        for (const Item& c : items) {
            const auto& rs = g.rhs[c.r];
            if (c.d < (int)rs.size()) {
                int x = rs[c.d]; Item n{c.r, c.d + 1, c.la};
                if (Gram::is_term(x)) { kern_t[Gram::term_of(x)].push_back(n); cells[Gram::term_of(x)].shift = true; } else kern_nt[x].push_back(n);
            } else {
                Cell& ce = cells[c.la];
                if (c.r == g.R) ce.accept = true;
                else if (std::find(ce.red.begin(), ce.red.end(), c.r) == ce.red.end()) ce.red.push_back(c.r);
            }
        }
        std::vector<int> go(g.NT + 1, -1);
        for (int A = 0; A <= g.NT; ++A) if (!kern_nt[A].empty()) go[A] = target(kern_nt[A]);
        L.st[cur].go = go;
        for (int t = 0; t < g.nterms(); ++t) {
            Cell& ce = cells[t]; bool follow = ce.shift; int nred = (int)ce.red.size();
            if (ce.accept && (nred > 0 || ce.shift)) { ce.acc_conf = true; L.any_acc = true; ce.kind = K_ACCEPT; if (resolve) follow = false; }
            else if (nred >= 2) { ce.rr = true; L.any_rr = true; ce.kind = K_RR; if (resolve) follow = false; }
            else if (nred == 1 && ce.shift) {
                ce.sr = true; L.any_sr = true;
                if (g.prefer_reduce(ce.red[0], t)) { ce.kind = K_REDUCE; ce.arg = ce.red[0]; if (resolve) follow = false; } else ce.kind = K_SHIFT;
            }
            else if (ce.accept) ce.kind = K_ACCEPT;
            else if (nred == 1) { ce.kind = K_REDUCE; ce.arg = ce.red[0]; }
            else if (ce.shift) ce.kind = K_SHIFT;
            if (follow) { ce.shift_to = target(kern_t[t]); if (ce.kind == K_SHIFT) ce.arg = ce.shift_to; }
        }
        L.st[cur].cell = cells;
    }
    return L;
}

// ---------------------------------------------------------------- documented driver + documented recovery
struct Run {
    bool ok = false, undefined = false, horizon = false;
    std::vector<int> err_tok, err_term, reductions;   // token index / term of each reported syntax error; rules in the order performed
    int max_depth = 0, discarded_terms = 0, popped_states = 0;
};
inline Run drive(const Gram& g, const LR1& L, const std::vector<int>& toks, long step_limit = 10000000) {
    Run R; std::vector<int> st{0}; size_t i = 0; bool recovery = false, consume = false; long steps = 0;
    while (true) {
        if (++steps > step_limit) { R.horizon = true; return R; }
        R.max_depth = std::max(R.max_depth, (int)st.size());
        int t = recovery ? g.err() : (i < toks.size() ? toks[i] : g.eof());
        const Cell& a = L.st[st.back()].cell[t];
        if (a.kind == K_ERROR) {
            if (consume) { if (t == g.eof()) return R; ++i; ++R.discarded_terms; continue; }
            if (!recovery) { R.err_tok.push_back((int)i); R.err_term.push_back(t); recovery = true; continue; }
            st.pop_back(); ++R.popped_states;
            if (st.empty()) return R;
            continue;
        }
        consume = false;
        if (a.kind == K_SHIFT) {
            if (a.arg < 0) { R.undefined = true; return R; }
            st.push_back(a.arg);
            if (t == g.err()) { recovery = false; consume = true; } else ++i;
        } else if (a.kind == K_REDUCE) {
            int r = a.arg, k = (int)g.rhs[r].size();
            if ((int)st.size() <= k) { R.undefined = true; return R; }
            st.resize(st.size() - k);
            int to = L.st[st.back()].go[g.lhs[r]];
            if (to < 0) { R.undefined = true; return R; }
            st.push_back(to); R.reductions.push_back(r);
        } else if (a.kind == K_ACCEPT) { if (a.acc_conf) { R.undefined = true; return R; } R.ok = true; return R; }
        else { R.undefined = true; return R; }
    }
}

}  // namespace dyn
