// E-GRAM frame: one compile-time instantiation of the real ctpg::parser whose grammar can be replaced at
// run time (DESIGN 1.1). Compiled with -DCTPG_VERIF -fno-access-control.
#pragma once
#include <ctpg/ctpg.hpp>
#include <sstream>
#include <string>
#include <vector>
#include <memory>
#include <new>
#include "../ref/lr1.hpp"

namespace eg {

using TV = ctpg::term_value<int>;
using NTm = ctpg::nterm<TV>;

// ------------------------------------------------------------------ harness-side observation state
struct LogEntry { int kind; int a, off, len; int nk; int kid[ref::MAXL]; };   // kind 0 term(a=term) 1 rule(a=rule); id = index in log
struct HarnessStop { const char* why; };
struct BoundsHit { const char* what; size_t idx, cap; };

struct Obs {
    std::vector<LogEntry> log;          // functor calls in order; id of the value produced = index
    std::vector<int> consumed;          // times value id was handed to a rule functor
    const char* base = nullptr;         // start of the caller's buffer (lexeme offsets)
    long steps = 0, step_limit = 3000;
    void reset(const char* b) { log.clear(); consumed.clear(); base = b; steps = 0; }
};
extern Obs g_obs;
extern long g_bounds_hits;

inline void step() { if (++g_obs.steps > g_obs.step_limit) throw HarnessStop{"step-limit"}; }

template<int K> struct TermF {
    int operator()(std::string_view sv) const {
        step();
        LogEntry e{}; e.kind = 0; e.a = K; e.off = int(sv.data() - g_obs.base); e.len = int(sv.size()); e.nk = 0;
        g_obs.log.push_back(e); g_obs.consumed.push_back(0);
        return int(g_obs.log.size()) - 1;
    }
};
inline int id_of(const TV& v) { return v.get_value(); }
inline int id_of(const ctpg::no_type&) { return -1; }
template<int I> struct RuleF {
    template<class... A> TV operator()(A&&... a) const {
        step();
        LogEntry e{}; e.kind = 1; e.a = I; e.nk = int(sizeof...(A));
        int ids[] = {0, id_of(a)...};
        for (int k = 0; k < e.nk; ++k) { e.kid[k] = ids[k + 1]; if (ids[k + 1] >= 0 && ids[k + 1] < (int)g_obs.consumed.size()) g_obs.consumed[ids[k + 1]]++; }
        g_obs.log.push_back(e); g_obs.consumed.push_back(0);
        return TV(int(g_obs.log.size()) - 1, ctpg::source_point{});
    }
};

// ------------------------------------------------------------------ scripted custom lexer (C18): answers come from the explorer
struct LexAsk { int off; int answer; bool verbose; int line, col; };   // answer: -1 fail, else idx * 64 + len; what match() was told: verbose flag, source point
struct LexScript {
    std::vector<int> choices;       // choice prefix to replay, then defaults (0)
    std::vector<int> taken, alts;   // what this run chose / how many alternatives existed at each ask
    std::vector<LexAsk> asks;       // every match() call in order
    int T = 0; long remaining_base = 0; const char* end = nullptr;
    void begin(int T_, const char* b, size_t n, const std::vector<int>& prefix) { T = T_; end = b + n; choices = prefix; taken.clear(); alts.clear(); asks.clear(); }
};
extern LexScript g_script;
inline const char* ptr_of(const char* p) { return p; }
template<class It> auto ptr_of(const It& it) -> decltype(it.ptr) { return it.ptr; }
template<class It> auto ptr_of(const It& it) -> decltype(it.p) { return it.p; }
struct ScriptedLexer {
    template<typename Iterator, typename ErrorStream>
    ctpg::recognized_term match(ctpg::match_options mopts, ctpg::source_point msp, Iterator start, Iterator, ErrorStream&) {
        step();
        const char* p = ptr_of(start);
        int off = int(p - g_obs.base); int remaining = int(g_script.end - p);
        for (const LexAsk& a : g_script.asks) if (a.off == off) { LexAsk again = a; again.verbose = mopts.verbose; again.line = (int)msp.line; again.col = (int)msp.column; g_script.asks.push_back(again); return a.answer < 0 ? ctpg::recognized_term{} : ctpg::recognized_term(ctpg::size16_t(a.answer / 64), size_t(a.answer % 64)); }
        int nalt = g_script.T * remaining + 1;    // (idx, len) pairs in order of len then idx, failure last
        size_t k = g_script.taken.size();
        int c = k < g_script.choices.size() ? g_script.choices[k] : 0;
        if (c >= nalt) throw HarnessStop{"script-divergence"};
        g_script.taken.push_back(c); g_script.alts.push_back(nalt);
        int answer = c == nalt - 1 ? -1 : (c % g_script.T) * 64 + (c / g_script.T + 1);
        g_script.asks.push_back(LexAsk{off, answer, mopts.verbose, (int)msp.line, (int)msp.column});
        return answer < 0 ? ctpg::recognized_term{} : ctpg::recognized_term(ctpg::size16_t(answer / 64), size_t(answer % 64));
    }
};

// ------------------------------------------------------------------ a user-defined buffer that checks every access
struct BufFault { long deref_end = 0, deref_out = 0, move_out = 0; long reads = 0; long high_water = -1; void reset() { *this = BufFault{}; } bool any() const { return deref_end || deref_out || move_out; } };
extern BufFault g_buf;

class checked_buffer {
public:
    checked_buffer(const char* b, size_t n) : b(b), e(b + n) {}
    struct iterator {
        const char* p; const char* b; const char* e;
        char operator*() const {
            step();
            if (p == e) { g_buf.deref_end++; return 0; }
            if (p < b || p > e) { g_buf.deref_out++; return 0; }
            g_buf.reads++; if (p - b > g_buf.high_water) g_buf.high_water = p - b;
            return *p;
        }
        iterator& operator++() { adv(1); return *this; }
        iterator operator++(int) { iterator i(*this); adv(1); return i; }
        bool operator==(const iterator& o) const { return p == o.p; }
        bool operator!=(const iterator& o) const { return p != o.p; }
        iterator& operator+=(size_t n) { adv(n); return *this; }
        iterator operator+(size_t n) const { iterator i(*this); i.adv(n); return i; }
        long operator-(const iterator& o) const { return long(p - o.p); }
        void adv(size_t n) {
            // formed without pointer arithmetic UB: positions are tracked as integers relative to b
            long pos = (p - b) + (long)n;
            if (pos < 0 || pos > (e - b) || n > (size_t)(e - b) + 1) { g_buf.move_out++; off_end = true; p = e; return; }
            p = b + pos;
        }
        bool off_end = false;
    };
    iterator begin() const { return iterator{b, b, e}; }
    iterator end() const { return iterator{e, b, e}; }
    std::string_view get_view(iterator s, iterator t) const { return std::string_view(s.p, size_t(t.p - s.p)); }
private:
    const char* b; const char* e;
};

// a user stream type that is not a std::ostream
struct user_stream {
    std::string text;
    template<class X> user_stream& operator<<(const X& x) { std::ostringstream o; o << x; text += o.str(); return *this; }
};

// ------------------------------------------------------------------ dump of what the real analyzer produced
// sr: the entry's has_sr_conflict flag (0/1), or 2 when the tree under test has no such member (the flag is an implementation detail;
// the oracles then take the conflict status from the reference and judge the diagnostics text and the behaviour only)
template<class E> auto sr_flag_of(const E& e, int) -> decltype(uint8_t(e.has_sr_conflict)) { return e.has_sr_conflict ? 1 : 0; }
template<class E> uint8_t sr_flag_of(const E&, long) { return 2; }
struct CellDump { uint8_t kind; uint16_t arg; uint8_t sr; int16_t rule; };   // rule: source rule number of gi.rule_infos[arg] when arg is in range, else -1   // kind: ctpg parse_table_entry_kind numbering
struct TableDump {
    int nstates = 0, ncols = 0;
    std::vector<ref::ItemSet> items;          // per state, in (source rule, dot, lookahead) coordinates
    std::vector<CellDump> cells;              // nstates x ncols
    std::vector<int> max_sit;                 // highest situation count in any per-state vector
    int spurious = 0; std::string spurious_what;   // lifted frames: entries or items that mention a filler symbol no rule uses
    int nlex = 0; std::vector<uint16_t> lex_trans, lex_rec;   // the generated lexer's table (nlex x 256 transitions, first recognised term per state)
    const CellDump& at(int s, int col) const { return cells[(size_t)s * ncols + col]; }
};

struct BuildResult { bool ok = false; bool threw = false; std::string what; bool bounds = false; BoundsHit hit{}; int state_count = 0; };

enum ParseMode { PM_OSTREAM = 0, PM_NOSTREAM = 1, PM_VERBOSE_OSTREAM = 2, PM_VERBOSE_USER = 3, PM_VERBOSE_NOSTREAM = 4, PM_CHECKED = 5, PM_CSTRING = 6, PM_PLAIN = 7 };

struct ParseObs {
    bool ok = false; int root = -1;
    std::string err;
    bool horizon = false; bool bounds = false; BoundsHit hit{}; bool threw = false; std::string what;
    bool supported = true;
};

struct FrameBase {
    int NT = 0, T = 0, R = 0;
    std::vector<int> arity;
    std::vector<std::vector<char>> iserr;   // [rule][pos]
    int max_cstr = 0;                        // cstring_buffer sizes instantiated: input lengths 0..max_cstr-1... (0 = none)
    std::string name;
    bool custom_lexer = false;               // terms are custom_term, lexer is the scripted use_lexer<>
    bool seed_only = false;                  // registered for explicit seed grammars only, never enumerated
    int off = 0, noff = 0;                   // lifted frames: number of unused filler terminals / nonterminals declared BEFORE the real ones (real indices are shifted up)
    virtual ~FrameBase() {}
    virtual BuildResult build(const ref::Gram& g) = 0;
    virtual void dump(TableDump& d) = 0;
    virtual std::string diag() = 0;
    virtual ParseObs parse(const char* data, size_t len, int mode) = 0;
    virtual size_t object_size() const = 0;
    virtual const void* object_ptr() const = 0;
    virtual int stack_capacity(size_t input_len) const = 0;   // N + EmptyRulesCount + 1 as instantiated
};

std::vector<FrameBase*>& registry();

// ------------------------------------------------------------------ the frame
// Off / NOff: "lifted" frames declare Off filler terminals and NOff filler nonterminals in front of the real ones, so that every real
// symbol index (and <eof>, error, the augmented root) is shifted past a 64-bit word boundary of the library's bitsets; no rule mentions a
// filler, so the grammar, its language, its table and its diagnostics are those of the unlifted grammar. The harness keeps working in
// unlifted coordinates: build() shifts on the way in, dump() shifts back and counts anything that mentions a filler.
struct LiftLimits { static const size_t state_count_cap = 128; static const size_t max_sit_count_per_state_cap = 224; };
inline const char* filler_name(int k) { static std::vector<std::string> v; if (v.empty()) for (int i = 0; i < 256; ++i) v.push_back("F" + std::to_string(i)); return v[k].c_str(); }
template<int NT_, int T_, typename Ar, typename Err, int MaxC, int Off = 0, int NOff = 0> struct Frame;

template<int NT_, int T_, int... N, int... E, int MaxC, int Off, int NOff>
struct Frame<NT_, T_, std::integer_sequence<int, N...>, std::integer_sequence<int, E...>, MaxC, Off, NOff> : FrameBase {
    static_assert(MaxC >= 0 || (Off == 0 && NOff == 0), "custom-lexer frames are not lifted");
    static_assert(Off <= 128 && NOff <= 250, "filler pools");
    static constexpr int Rn = sizeof...(N);
    static constexpr int arr[Rn + 1] = {N..., 0};
    static constexpr bool is_err(int i, int j) { int code = i * 8 + j; bool r = false; ((r = r || (E == code)), ...); return r; }

    template<class S> static auto mk() { if constexpr (std::is_same_v<S, NTm>) return NTm("N0"); else return ctpg::error; }

    template<int I, typename = std::make_index_sequence<(size_t)arr[I]>> struct RuleOf;
    template<int I, size_t... J> struct RuleOf<I, std::index_sequence<J...>> {
        template<size_t j> using sym_t = std::conditional_t<is_err(I, (int)j), ctpg::error_recovery_token, NTm>;
        using type = ctpg::detail::rule<false, RuleF<I>, NTm, sym_t<J>...>;
        static type make() { return type(RuleF<I>{}, NTm("N0"), std::tuple<sym_t<J>...>(mk<sym_t<J>>()...)); }
    };
    template<size_t> using nt_always = NTm;
    static constexpr bool Custom = MaxC < 0;
    template<int K> using term_t = std::conditional_t<Custom, ctpg::custom_term<TermF<K - Off>>, ctpg::typed_term<ctpg::char_term, TermF<K - Off>>>;   // K: position in terms(...); K - Off: the harness's term index (negative for fillers, which never match)
    using limits_t = std::conditional_t<(Off > 0 || NOff > 0), LiftLimits, ctpg::default_limits>;
    using lexer_usage_t = std::conditional_t<Custom, ctpg::use_lexer<ScriptedLexer>, ctpg::use_generated_lexer>;

    template<typename = std::make_index_sequence<T_ + Off>, typename = std::make_index_sequence<NT_ + NOff>, typename = std::make_index_sequence<Rn>> struct Types;
    template<size_t... TI, size_t... NI, size_t... RI>
    struct Types<std::index_sequence<TI...>, std::index_sequence<NI...>, std::index_sequence<RI...>> {
        using terms_t = std::tuple<term_t<(int)TI>...>;
        using nterms_t = std::tuple<nt_always<NI>...>;
        using rules_t = std::tuple<typename RuleOf<(int)RI>::type...>;
        using parser_t = ctpg::parser<NTm, terms_t, nterms_t, rules_t, lexer_usage_t, limits_t>;
        static parser_t* make() {
            static const char* names[] = {"N0", "N1", "N2", "N3", "N4", "N5", "N6", "N7", "N8", "N9"};
            static const char* tnames[] = {"a", "b", "c", "d", "e", "f", "g", "h", "i", "j", "k", "l", "m", "n"};
            auto mkterm = [](auto idx) {
                constexpr int K = decltype(idx)::value;
                if constexpr (Custom) return term_t<K>(tnames[K], TermF<K>{});
                else if constexpr (K < Off) return term_t<K>(ctpg::char_term(char(0x80 + K)), TermF<K - Off>{});   // filler: a byte no explored input contains
                else return term_t<K>(ctpg::char_term(char(97 + K - Off)), TermF<K - Off>{});
            };
            terms_t ts{mkterm(std::integral_constant<int, (int)TI>{})...};
            nterms_t ns{NTm((int)NI < NOff ? filler_name((int)NI) : names[(int)NI - NOff])...};
            rules_t rs{RuleOf<(int)RI>::make()...};
            if constexpr (Off > 0 || NOff > 0) return new parser_t(NTm("N0"), ts, ns, std::move(rs), lexer_usage_t{}, limits_t{});
            else return new parser_t(NTm("N0"), ts, ns, std::move(rs), lexer_usage_t{});
        }
    };
    using P = typename Types<>::parser_t;
    using SA = typename P::state_analyzer;

    P* p = nullptr;
    void* sa_mem = nullptr;

    Frame() {
        NT = NT_; T = T_; R = Rn; max_cstr = MaxC < 0 ? 0 : MaxC; custom_lexer = Custom; off = Off; noff = NOff;
        for (int i = 0; i < Rn; ++i) { arity.push_back(arr[i]); std::vector<char> e; for (int j = 0; j < arr[i]; ++j) e.push_back(is_err(i, j)); iserr.push_back(e); }
        name = "NT" + std::to_string(NT) + "T" + std::to_string(T) + "[";
        for (int i = 0; i < Rn; ++i) { name += std::to_string(arr[i]); }
        name += "]";
        if (Custom) name += "L";
        if (Off) name += "+t" + std::to_string(Off);
        if (NOff) name += "+n" + std::to_string(NOff);
        for (int i = 0; i < Rn; ++i) for (int j = 0; j < arr[i]; ++j) if (is_err(i, j)) name += "e" + std::to_string(i) + std::to_string(j);
        p = Types<>::make();
        sa_mem = ::operator new(sizeof(SA));
    }

    size_t object_size() const override { return sizeof(P); }
    const void* object_ptr() const override { return p; }
    int stack_capacity(size_t len) const override { return int(len + 1 + P::empty_rules_count + 1); }

    BuildResult build(const ref::Gram& g) override {
        BuildResult br;
        using symbol = typename P::symbol;
        auto& gi = p->gi;
        for (int i = 0; i < Rn; ++i) {
            for (int j = 0; j < (int)P::max_rule_element_count; ++j) gi.right_sides[i][j] = symbol{};
            for (int j = 0; j < g.n[i]; ++j) {
                int s = g.rhs[i][j];
                gi.right_sides[i][j] = ref::Gram::is_term(s) ? symbol{true, ctpg::size16_t(Off + ref::Gram::term_of(s))} : symbol{false, ctpg::size16_t(NOff + s)};
            }
            gi.rule_infos[i] = {ctpg::size16_t(NOff + g.lhs[i]), ctpg::size16_t(i), ctpg::size16_t(g.n[i])};
        }
        for (int j = 0; j < (int)P::max_rule_element_count; ++j) gi.right_sides[Rn][j] = symbol{};
        gi.right_sides[Rn][0] = symbol{false, ctpg::size16_t(NOff)};
        gi.rule_infos[Rn] = {ctpg::size16_t(NOff + NT_), ctpg::size16_t(Rn), 1};
        for (int t = 0; t < Off; ++t) { gi.term_precedences[t] = 0; gi.term_associativities[t] = ctpg::associativity::no_assoc; }
        for (int t = 0; t < T_; ++t) {
            gi.term_precedences[Off + t] = g.tprec[t];
            gi.term_associativities[Off + t] = g.tassoc[t] == ref::LTOR ? ctpg::associativity::ltor : g.tassoc[t] == ref::RTOL ? ctpg::associativity::rtol : ctpg::associativity::no_assoc;
        }
        for (int i = 0; i <= Rn; ++i) {
            gi.rule_last_terms[i] = p->calculate_rule_last_term(ctpg::size16_t(i), ctpg::size16_t(i == Rn ? 1 : g.n[i]));
            gi.rule_precedences[i] = p->calculate_rule_precedence(i == Rn ? 0 : g.rprec[i], ctpg::size16_t(i));
            gi.rule_associativities[i] = p->calculate_rule_associativity(ctpg::size16_t(i));
        }
        ctpg::stdex::sort(gi.rule_infos, [](const auto& ri1, const auto& ri2) { return ri1.l_idx < ri2.l_idx; });
        for (auto& sl : gi.nterm_rule_slices) sl = ctpg::utils::slice{};
        p->make_nterm_rule_slices();
        for (size_t s = 0; s < P::state_count_cap; ++s) {
            p->states[s] = typename P::situation_set{};
            for (size_t c = 0; c < P::symbol_count; ++c) p->parse_table[s][c] = typename P::parse_table_entry{};
        }
        p->state_count = 0;
        SA* sa = new (sa_mem) SA(p->gi, p->states, p->parse_table);
        try {
            p->state_count = sa->analyze_states();
            br.ok = true; br.state_count = p->state_count;
            last_max_sit = 0;
            for (int s = 0; s < p->state_count; ++s) {
                last_max_sit = std::max<int>(last_max_sit, (int)sa->states[s].all_situations_vec.size());
            }
        } catch (const BoundsHit& b) { br.bounds = true; br.hit = b; }
        catch (const std::exception& e) { br.threw = true; br.what = e.what(); }
        return br;
    }
    int last_max_sit = 0;

    void dump(TableDump& d) override {
        d.nstates = p->state_count; d.ncols = NT_ + 1 + T_ + 2;   // unlifted coordinates: nonterminals 0..NT_ (augmented root last), then terminals 0..T_+1
        d.items.assign(d.nstates, ref::ItemSet{});
        d.cells.assign((size_t)d.nstates * d.ncols, CellDump{});
        d.max_sit.assign(1, last_max_sit);
        d.spurious = 0; d.spurious_what.clear();
        auto spur = [&](const std::string& w) { if (!d.spurious++) d.spurious_what = w; };
        for (int s = 0; s < d.nstates; ++s) {
            for (ctpg::size32_t i = 0; i < P::situation_address_space_size; ++i) if (p->states[s].test(i)) {
                auto info = P::make_situation_info(i);
                int r = p->gi.rule_infos[info.rule_info_idx].r_idx;
                if ((int)info.t < Off) { spur("state " + std::to_string(s) + ": an item of rule " + std::to_string(r) + " has lookahead term index " + std::to_string(info.t) + ", a terminal no rule mentions"); continue; }
                int t = (int)info.t - Off;
                if (info.after <= ref::MAXL && t < ref::MAXT + 2 && r <= ref::MAXR)
                    d.items[s].set(ref::item_code(r, info.after, t));
            }
            for (int c = 0; c < (int)P::symbol_count; ++c) {
                const auto& e = p->parse_table[s][c];
                int cc;   // compact column
                if (c < (int)P::nterm_count) cc = c < NOff ? -1 : c - NOff;
                else { int t = c - (int)P::nterm_count; cc = t < Off ? -1 : NT_ + 1 + (t - Off); }
                if (cc < 0) { if (int(e.kind) != 0) spur("state " + std::to_string(s) + ": the table has an action (kind " + std::to_string(int(e.kind)) + ") in the column of " + (c < (int)P::nterm_count ? "nonterminal" : "terminal") + " index " + std::to_string(c < (int)P::nterm_count ? c : c - (int)P::nterm_count) + ", a symbol no rule mentions"); continue; }
                d.cells[(size_t)s * d.ncols + cc] = CellDump{uint8_t(e.kind), e.arg, sr_flag_of(e, 0), int16_t(e.arg < P::rule_count ? p->gi.rule_infos[e.arg].r_idx : -1)};
            }
        }
        d.nlex = 0; d.lex_trans.clear(); d.lex_rec.clear();
        if constexpr (!Custom) {
            d.nlex = (int)p->lexer_sm.size();
            for (int s = 0; s < d.nlex; ++s) { d.lex_rec.push_back(p->lexer_sm[s].conflicted_recognition[0]); for (int c = 0; c < 256; ++c) d.lex_trans.push_back(p->lexer_sm[s].transitions[c]); }
        }
    }

    std::string diag() override { std::ostringstream o; p->write_diag_str(o); return o.str(); }

    template<size_t Nn> ParseObs parse_cstr(const char* data, size_t len) {
        if constexpr (MaxC < 0 || Nn > (size_t)(MaxC < 0 ? 0 : MaxC)) { (void)data; (void)len; ParseObs o; o.supported = false; return o; }
        else {
            if (len + 1 != Nn) return parse_cstr<Nn + 1>(data, len);
            char arr2[Nn]; for (size_t i = 0; i < len; ++i) arr2[i] = data[i]; arr2[Nn - 1] = 0;
            ctpg::buffers::cstring_buffer<Nn> buf(arr2);
            g_obs.base = buf.data;   // lexeme offsets are relative to the buffer's private copy
            std::ostringstream es;
            ParseObs o;
            auto r = p->parse(ctpg::parse_options{}, buf, es);
            o.ok = r.has_value(); if (o.ok) o.root = r.value().get_value();
            o.err = es.str();
            return o;
        }
    }

    ParseObs parse(const char* data, size_t len, int mode) override {
        ParseObs o;
        g_obs.reset(data);
        try {
            if (mode == PM_OSTREAM || mode == PM_PLAIN) {
                std::ostringstream es;
                auto r = p->parse(ctpg::buffers::string_view_buffer(std::string_view(data, len)), static_cast<std::ostream&>(es));
                o.ok = r.has_value(); if (o.ok) o.root = r.value().get_value(); o.err = es.str();
            } else if (mode == PM_NOSTREAM) {
                auto r = p->parse(ctpg::buffers::string_view_buffer(std::string_view(data, len)));
                o.ok = r.has_value(); if (o.ok) o.root = r.value().get_value();
            } else if (mode == PM_VERBOSE_OSTREAM) {
                std::ostringstream es;
                auto r = p->parse(ctpg::parse_options{}.set_verbose(), ctpg::buffers::string_view_buffer(std::string_view(data, len)), static_cast<std::ostream&>(es));
                o.ok = r.has_value(); if (o.ok) o.root = r.value().get_value(); o.err = es.str();
            } else if (mode == PM_VERBOSE_USER) {
                user_stream us;
                auto r = p->parse(ctpg::parse_options{}.set_verbose(), ctpg::buffers::string_view_buffer(std::string_view(data, len)), us);
                o.ok = r.has_value(); if (o.ok) o.root = r.value().get_value(); o.err = us.text;
            } else if (mode == PM_VERBOSE_NOSTREAM) {
                ctpg::utils::no_stream ns;
                auto r = p->parse(ctpg::parse_options{}.set_verbose(), ctpg::buffers::string_view_buffer(std::string_view(data, len)), ns);
                o.ok = r.has_value(); if (o.ok) o.root = r.value().get_value();
            } else if (mode == PM_CHECKED) {
                std::ostringstream es;
                g_buf.reset();
                auto r = p->parse(ctpg::parse_options{}, checked_buffer(data, len), static_cast<std::ostream&>(es));
                o.ok = r.has_value(); if (o.ok) o.root = r.value().get_value(); o.err = es.str();
            } else if (mode == PM_CSTRING) {
                o = parse_cstr<1>(data, len);
            }
        } catch (const HarnessStop&) { o.horizon = true; }
        catch (const BoundsHit& b) { o.bounds = true; o.hit = b; }
        catch (const std::exception& e) { o.threw = true; o.what = e.what(); }
        return o;
    }
};

// a frame's constructor builds an ordinary parser from an ordinary (dummy) grammar: if that throws, the tree under test cannot construct a valid parser;
// the message is kept and reported by main() as a failure of the real code in phase "frame-construction"
std::string& frame_ctor_failure();
template<class F> struct Register { Register() { try { registry().push_back(new F()); } catch (const std::exception& e) { if (frame_ctor_failure().empty()) frame_ctor_failure() = e.what(); } catch (...) { if (frame_ctor_failure().empty()) frame_ctor_failure() = "unknown exception"; } } };
template<class F> struct RegisterSeed { RegisterSeed() { try { auto* f = new F(); f->seed_only = true; registry().push_back(f); } catch (const std::exception& e) { if (frame_ctor_failure().empty()) frame_ctor_failure() = e.what(); } catch (...) { if (frame_ctor_failure().empty()) frame_ctor_failure() = "unknown exception"; } } };

} // namespace eg
