// E-RX: bounded exhaustive exploration of pattern space / term-set space x input space on the real regex
// front-end, the real dfa_builder and the real lexer loop (DESIGN 1.2, 1.4). Compiled with -DCTPG_VERIF -fno-access-control.
#include <ctpg/ctpg.hpp>
#include "../ref/regex.hpp"
#include "../ref/lr1.hpp"
#include "jsonw.hpp"
#include "dfa_dump.hpp"
#include <chrono>
#include <csignal>
#include <cstring>
#include <fstream>
#include <functional>
#include <iostream>
#include <set>
#include <sstream>
#include <unistd.h>

struct BoundsHit { const char* what; size_t idx, cap; };
static long g_bounds_hits = 0;
namespace ctpg_verif { void bounds_violation(const char* what, std::size_t idx, std::size_t cap) { g_bounds_hits++; throw BoundsHit{what, idx, cap}; } }

using namespace ctpg;
namespace rgx = ctpg::regex;

// ------------------------------------------------------------------------------------------------ bookkeeping
struct Config {
    std::string mode, out; int shard = 0, nshards = 1; int K = 4, maxlen = 4, setsize = 2, pool = 0; double deadline = 1e18; bool verbose = false;
    std::string one; std::vector<std::string> one_terms; std::string input; bool has_input = false; int opt = -1;
} cfg;
struct Viol { std::string prop, kind, subject, input, detail, known; };
static std::map<std::string, long long> ctr, viol_count;
static std::vector<Viol> viols; static std::map<std::string, int> kept;
static std::map<std::string, std::vector<std::string>> samples; static std::map<std::string, std::set<std::string>> outcomes;
static std::chrono::steady_clock::time_point t0; static bool deadline_hit = false;
static std::string cur_subject, cur_input; static const char* cur_phase = "";
static double elapsed() { return std::chrono::duration<double>(std::chrono::steady_clock::now() - t0).count(); }
static std::string vis(const std::string& s) { std::string o; for (unsigned char c : s) { if (c >= 0x21 && c < 0x7f && c != '\\') o += char(c); else { char b[8]; std::snprintf(b, sizeof b, "\\x%02x", c); o += b; } } return o; }

static void add_viol(const char* prop, const std::string& kind, const std::string& subject, const std::string& input, const std::string& detail, const std::string& known = "", int keep = 6) {
    std::string k = std::string(prop) + "|" + kind + "|" + (known.empty() ? "" : "k");
    viol_count[k]++;
    static std::map<std::string, int> kept_known;
    if (!known.empty() ? kept_known[known]++ < keep : kept[k] < keep) { kept[k]++; viols.push_back(Viol{prop, kind, subject, input, detail, known}); }
    if (cfg.verbose) std::fprintf(stderr, "VIOL %s %s | %s | in=%s | %s %s\n", prop, kind.c_str(), vis(subject).c_str(), vis(input).c_str(), detail.c_str(), known.c_str());
}
static void add_sample(const char* prop, const std::string& json, size_t cap = 5) { auto& v = samples[prop]; if (v.size() < cap) v.push_back(json); }
static uint32_t fnv(const std::string& s) { uint32_t h = 2166136261u; for (unsigned char c : s) { h ^= c; h *= 16777619u; } return h; }
static std::string hex8(uint32_t h) { char b[12]; std::snprintf(b, sizeof b, "%08x", h); return b; }

// ------------------------------------------------------------------------------------------------ checked buffer (user buffer kind)
struct BufFault { long deref_out = 0, move_out = 0, deref_end = 0; void reset() { *this = BufFault{}; } };
static BufFault g_buf;
static long g_steps = 0, g_step_limit = 4000;
struct Horizon {};
class checked_buffer {
public:
    // [b, b+n) is the text; if term_readable, b[n] exists (a NUL, as in cstring_buffer) and may be read
    checked_buffer(const char* b, size_t n, bool term_readable) : b(b), n(long(n)), tr(term_readable) {}
    struct iterator {
        const char* b; long pos, n; bool tr;
        char operator*() const {
            if (++g_steps > g_step_limit) throw Horizon{};
            if (pos == n) { if (tr) return b[n]; g_buf.deref_end++; return 0; }
            if (pos < 0 || pos > n) { g_buf.deref_out++; return 0; }
            return b[pos];
        }
        iterator& operator++() { adv(1); return *this; }
        iterator operator++(int) { iterator i(*this); adv(1); return i; }
        bool operator==(const iterator& o) const { return pos == o.pos; }
        bool operator!=(const iterator& o) const { return pos != o.pos; }
        iterator& operator+=(size_t k) { adv(k); return *this; }
        iterator operator+(size_t k) const { iterator i(*this); i.adv(k); return i; }
        long operator-(const iterator& o) const { return pos - o.pos; }
        void adv(size_t k) { if (k > size_t(n - pos) + (pos <= n ? 0 : 0) || pos > n) { if (pos + long(k) > n) g_buf.move_out++; pos = pos + long(k) > n + 1000000 ? n + 1000000 : pos + long(k); } else pos += long(k); }
    };
    iterator begin() const { return iterator{b, 0, n, tr}; }
    iterator end() const { return iterator{b, n, n, tr}; }
    std::string_view get_view(iterator s, iterator e) const { long a = std::min(std::max(s.pos, 0L), n), z = std::min(std::max(e.pos, a), n); return std::string_view(b + a, size_t(z - a)); }
private:
    const char* b; long n; bool tr;
};

// ------------------------------------------------------------------------------------------------ real pattern build
constexpr size_t BIGN = 2304;   // harness-side capacity of the real automaton type (a{1000} needs 2000 states)
using BigDfa = rgx::dfa<BIGN>;
struct Built { bool ok = false; bool threw = false; bool bounds = false; std::string what; size_t states = 0; long predicted = -1; bool analyzer_ok = false; bool too_big = false; };

template<class Buffer>
static Built build_pattern(BigDfa& sm, const Buffer& buf) {
    Built r;
    sm.clear();
    try {
        rgx::dfa_size_analyzer a; utils::no_stream ns;
        auto ar = rgx::regex_parser::regex_parser_object.context_parse(a, parse_options{}.set_skip_whitespace(false), buf, ns);
        r.analyzer_ok = ar.has_value(); if (ar) r.predicted = ar->n;
        if (r.predicted > (long)BIGN - 8) { r.too_big = true; return r; }   // does not fit the harness's fixed-size automaton: not explored (counted)
        rgx::dfa_builder<BIGN> b(sm);
        auto br = rgx::regex_parser::regex_parser_object.context_parse(b, parse_options{}.set_skip_whitespace(false), buf, ns);
        r.ok = br.has_value();
        if (br) b.mark_end_states(*br, 0);
        r.states = sm.size();
    } catch (const BoundsHit& h) { r.bounds = true; r.what = h.what; }
    catch (const Horizon&) { r.threw = true; r.what = "step horizon"; }
    catch (const std::exception& e) {
        // the size analysis runs first in every user-visible path (regex::expr, regex_term) and gates the builder; a pattern it refuses can
        // make the harness's fixed-size automaton overflow half-way (e.g. "]{222}|"), which says nothing about ctpg
        if (r.analyzer_ok) { r.threw = true; r.what = e.what(); } else r.ok = false;
    }
    return r;
}

template<size_t N> static bool real_accepting(const rgx::dfa<N>& sm, int s) { return sm[s].conflicted_recognition[0] != uninitialized16; }
template<size_t N> static int real_step(const rgx::dfa<N>& sm, int s, int byte) { if (s < 0) return -1; size16_t t = sm[s].transitions[byte]; return t == uninitialized16 ? -1 : int(t); }

// the real interpreter on one string (what regex::expr::match computes, without its failure-path read)
static bool real_match(const BigDfa& sm, const std::string& w) {
    utils::no_stream ns;
    buffers::string_view_buffer buf{std::string_view(w)};
    auto res = rgx::dfa_match(sm, match_options{}, source_point{}, buf.begin(), buf.end(), ns);
    return res.term_idx == 0 && res.len == w.size();
}
static bool table_match(const BigDfa& sm, const std::string& w) { int s = 0; for (unsigned char c : w) { s = real_step(sm, s, c); if (s < 0) return false; } return real_accepting(sm, s); }

// ------------------------------------------------------------------------------------------------ AST enumeration
struct Pool { std::string name; std::vector<rx::Atom> atoms; };
static rx::CharSet cs_of(std::initializer_list<int> l) { rx::CharSet s; for (int c : l) s.set(c); return s; }
static rx::CharSet cs_range(int a, int b) { rx::CharSet s; for (int c = a; c <= b; ++c) s.set(c); return s; }
static std::vector<Pool> make_pools() {
    std::vector<Pool> P;
    rx::CharSet all; all.set();
    auto A = [](const char* t, rx::CharSet s) { return rx::Atom{t, s}; };
    P.push_back({"ab", {A("a", cs_of({'a'})), A("b", cs_of({'b'}))}});
    P.push_back({"a-nota", {A("a", cs_of({'a'})), A("[^a]", ~cs_of({'a'}))}});
    P.push_back({"a-any", {A("a", cs_of({'a'})), A(".", all)}});
    P.push_back({"set-b", {A("[a-c]", cs_range('a', 'c')), A("b", cs_of({'b'}))}});
    P.push_back({"hi-a", {A("\\x80", cs_of({0x80})), A("a", cs_of({'a'}))}});
    P.push_back({"esc-digit", {A("\\+", cs_of({'+'})), A("1", cs_of({'1'}))}});
    P.push_back({"sets", {A("[ab]", cs_of({'a', 'b'})), A("[^\\x00-a]", ~cs_range(0, 'a'))}});
    P.push_back({"nul-ff", {A("\\x", cs_of({0})), A("[\\xf0-\\xff]", cs_range(0xf0, 0xff))}});
    P.push_back({"mid-range", {A("[\\x70-\\x90]", cs_range(0x70, 0x90)), A("[^ -\\xfe]", ~cs_range(0x20, 0xfe))}});
    P.push_back({"abc", {A("a", cs_of({'a'})), A("b", cs_of({'b'})), A("c", cs_of({'c'}))}});
    return P;
}

// enumerate all ASTs with exactly k nodes; calls f(root)
static void enum_asts(rx::AstPool& p, int natoms, int k, bool with_rep, const std::function<void(int)>& f) {
    if (k == 1) { for (int a = 0; a < natoms; ++a) { size_t m = p.nodes.size(); f(p.leaf(a)); p.nodes.resize(m); } return; }
    // unary
    enum_asts(p, natoms, k - 1, with_rep, [&](int c) {
        size_t m = p.nodes.size();
        f(p.un(rx::STAR, c)); p.nodes.resize(m);
        f(p.un(rx::PLUS, c)); p.nodes.resize(m);
        f(p.un(rx::OPT, c)); p.nodes.resize(m);
        f(p.un(rx::GROUP, c)); p.nodes.resize(m);
        if (with_rep) for (int n : {0, 1, 2, 3, 10, 12}) { f(p.un(rx::REP, c, n)); p.nodes.resize(m); }   // two-digit counts exercise the number rule
    });
    for (int kl = 1; kl <= k - 2; ++kl) {
        int kr = k - 1 - kl;
        enum_asts(p, natoms, kl, with_rep, [&](int l) {
            enum_asts(p, natoms, kr, with_rep, [&](int r) {
                size_t m = p.nodes.size();
                f(p.bin(rx::CAT, l, r)); p.nodes.resize(m);
                f(p.bin(rx::ALT, l, r)); p.nodes.resize(m);
            });
        });
    }
}

// second, independent reference on short strings: set of end positions by structural recursion
static std::set<int> bt(const rx::AstPool& p, const std::vector<rx::Atom>& at, int id, const std::string& w, int i) {
    const rx::Ast& a = p.nodes[id]; std::set<int> out;
    switch (a.op) {
        case rx::LEAF: if (i < (int)w.size() && at[a.atom].set[(unsigned char)w[i]]) out.insert(i + 1); break;
        case rx::GROUP: return bt(p, at, a.l, w, i);
        case rx::OPT: out = bt(p, at, a.l, w, i); out.insert(i); break;
        case rx::STAR: case rx::PLUS: {
            std::set<int> frontier{i}, seen; if (a.op == rx::STAR) out.insert(i);
            while (!frontier.empty()) { std::set<int> nx; for (int s : frontier) for (int e : bt(p, at, a.l, w, s)) if (!seen.count(e)) { seen.insert(e); nx.insert(e); out.insert(e); } frontier = nx; }
            break;
        }
        case rx::REP: { std::set<int> cur{i}; for (int k = 0; k < a.n; ++k) { std::set<int> nx; for (int s : cur) for (int e : bt(p, at, a.l, w, s)) nx.insert(e); cur = nx; } out = cur; break; }
        case rx::CAT: for (int m : bt(p, at, a.l, w, i)) for (int e : bt(p, at, a.r, w, m)) out.insert(e); break;
        case rx::ALT: out = bt(p, at, a.l, w, i); for (int e : bt(p, at, a.r, w, i)) out.insert(e); break;
    }
    return out;
}

// ------------------------------------------------------------------------------------------------ C03 / C12a: one pattern
static BigDfa* g_sm = nullptr;

static void check_pattern(const rx::AstPool& pool, const std::vector<rx::Atom>& atoms, int root) {
    std::string pat = rx::print(pool, atoms, root);
    cur_subject = pat; cur_phase = "pattern";
    ctr["patterns"]++;
    Built b = build_pattern(*g_sm, buffers::string_view_buffer(std::string_view(pat)));
    if (b.too_big) { ctr["patterns_too_big_for_harness"]++; return; }
    if (b.bounds || b.threw) { add_viol("C03", "builder-exception", pat, "", b.what); return; }
    if (!b.ok || !b.analyzer_ok) { add_viol("C03", "valid-pattern-rejected", pat, "", "a pattern in the documented syntax was refused"); add_viol("C17", "valid-pattern-rejected", pat, "", "a pattern in the documented syntax was refused"); return; }
    ctr["dfa_states_built"] += (long long)b.states;
    // C12 (a): the statically predicted automaton size must cover what the builder really uses
    ctr["C12.pattern_evals"]++;
    outcomes["C12"].insert("size" + std::to_string(std::min<size_t>(b.states, 40)));
    if ((long)b.states > b.predicted) add_viol("C12", "dfa-size-underestimated", pat, "", "dfa_size_analyzer predicts " + std::to_string(b.predicted) + " states, the builder uses " + std::to_string(b.states));
    if (b.predicted > (long)BIGN) { ctr["patterns_too_big_for_harness"]++; return; }
    for (size_t s = 0; s < b.states; ++s) for (int c = 0; c < 256; ++c) { size16_t t = (*g_sm)[s].transitions[c]; if (t != uninitialized16 && t >= b.states) { add_viol("C12", "transition-outside-automaton", pat, "", "state " + std::to_string(s) + " -> " + std::to_string(t)); break; } }

    rx::RefDfa rd; rd.init(pool, atoms, root);
    // pair BFS over (real state | dead, reference state | dead) x 256 bytes: language equality for strings of every length
    std::map<std::pair<int, int>, int> seen; std::vector<std::pair<int, int>> q; std::vector<int> par, by;
    seen[{0, 0}] = 0; q.push_back({0, 0}); par.push_back(-1); by.push_back(0);
    int bad = -1; long edges = 0;
    for (size_t i = 0; i < q.size() && bad < 0; ++i) {
        auto [rs, fs] = q[i];
        bool ra = rs >= 0 && real_accepting(*g_sm, rs), fa = rd.accepting(fs);
        if (ra != fa) { bad = (int)i; break; }
        if (rs < 0 && fs < 0) continue;
        for (int c = 0; c < 256; ++c) {
            int rn = real_step(*g_sm, rs, c), fn = rd.step(fs, c); ++edges;
            if (rn < 0 && fn < 0) continue;
            auto key = std::make_pair(rn, fn);
            if (!seen.count(key)) { seen[key] = (int)q.size(); q.push_back(key); par.push_back((int)i); by.push_back(c); }
        }
    }
    ctr["pair_states"] += (long long)q.size(); ctr["pair_edges"] += edges;
    ctr["C03.evals"]++;
    // interpreter bound to table, and second reference, on all short strings over class representatives
    std::vector<int> reps = rd.rep; if (reps.size() > 4) reps.resize(4);
    std::vector<std::string> words{""};
    for (size_t lo = 0, l = 0; l < (size_t)cfg.maxlen; ++l) { size_t hi = words.size(); for (size_t i = lo; i < hi; ++i) for (int r : reps) words.push_back(words[i] + char(r)); lo = hi; }
    std::string accvec;
    for (auto& w : words) {
        bool tm = table_match(*g_sm, w), rm = real_match(*g_sm, w), fm = rd.match(w);
        ctr["matches"]++;
        if (tm != rm) add_viol("C03", "interpreter-vs-table", pat, w, std::string("dfa_match says ") + (rm ? "match" : "no match") + ", a plain walk of the emitted table says otherwise");
        bool b2 = bt(pool, atoms, root, w, 0).count((int)w.size()) != 0;
        if (b2 != fm) { std::fprintf(stderr, "HARNESS ERROR: the two reference matchers disagree on pattern %s input %s\n", pat.c_str(), vis(w).c_str()); std::exit(2); }
        accvec += rm ? '1' : '0';
    }
    if (bad >= 0) {
        std::string w; for (int i = bad; par[i] >= 0; i = par[i]) w.insert(w.begin(), char(by[i]));
        bool rm = real_match(*g_sm, w), fm = rd.match(w);
        if (rm == fm) { std::fprintf(stderr, "HARNESS ERROR: distinguishing string does not replay: pattern %s input %s\n", pat.c_str(), vis(w).c_str()); std::exit(2); }
        std::string key = "rx:" + jw::hex(pat) + ":" + hex8(fnv(accvec + "|" + w));
        add_viol("C03", rm ? "accepts-nonmember" : "rejects-member", pat, w, std::string("the matcher built from the pattern ") + (rm ? "accepts" : "rejects") + " this string, the pattern's language does " + (fm ? "" : "not ") + "contain it", key);
        outcomes["C03"].insert(rm ? "wrong-accept" : "wrong-reject");
    } else {
        outcomes["C03"].insert("equal-" + std::to_string(std::min<size_t>(q.size(), 12)));
        ctr["C03.equivalent"]++;
        if (q.size() >= 4) add_sample("C03", jw::Obj().s("pattern", pat).i("real_states", (long long)b.states).i("pair_states", (long long)q.size()).i("byte_classes", rd.ncls).str());
    }
}

static void run_c03() {
    g_sm = new BigDfa();
    auto pools = make_pools();
    long idx = 0;
    for (size_t pi = 0; pi < pools.size(); ++pi) {
        if (cfg.pool > 0 && (int)pi >= cfg.pool) break;
        for (int k = 1; k <= cfg.K; ++k) {
            if (pools[pi].atoms.size() > 2 && k > cfg.K - 1) continue;   // the 3-atom pool is explored one level shallower
            rx::AstPool ap;
            enum_asts(ap, (int)pools[pi].atoms.size(), k, true, [&](int root) {
                if ((idx++ % cfg.nshards) != cfg.shard) return;
                if (deadline_hit) return;
                if ((idx & 255) == 0 && elapsed() > cfg.deadline) { deadline_hit = true; return; }
                check_pattern(ap, pools[pi].atoms, root);
            });
        }
    }
    // every byte value written as a hex escape in every spelling of the digits (lower, upper, mixed case), alone, as both ends of a range and inside a set
    {
        static const char* lo = "0123456789abcdef"; static const char* up = "0123456789ABCDEF";
        for (int b = 0; b < 256; ++b) for (int sp = 0; sp < 4; ++sp) {
            if ((idx++ % cfg.nshards) != cfg.shard || deadline_hit) continue;
            char h = (sp & 1) ? up[b >> 4] : lo[b >> 4], l = (sp & 2) ? up[b & 15] : lo[b & 15];
            std::string esc = std::string("\\x") + h + l;
            int b2 = std::min(255, b + 5); std::string esc2 = std::string("\\x") + ((sp & 2) ? up[b2 >> 4] : lo[b2 >> 4]) + ((sp & 1) ? up[b2 & 15] : lo[b2 & 15]);
            std::vector<rx::Atom> atoms = {rx::Atom{esc, cs_of({b})}, rx::Atom{"[" + esc + "-" + esc2 + "]", cs_range(b, b2)}, rx::Atom{"[^" + esc + "z]", ~(cs_of({b}) | cs_of({'z'}))}};
            for (int a = 0; a < 3; ++a) { rx::AstPool ap; int root = ap.leaf(a); ctr["C03.hex_spelling_patterns"]++; check_pattern(ap, atoms, root); }
        }
    }
    // set composition: members of a set in every order - singles, ranges, adjacent ranges, overlapping ranges, a single inside an earlier range, hex-escaped ends;
    // all ordered selections of up to 4 of 12 components, plain and inverted
    {
        struct Comp { const char* text; int lo, hi; };
        static const Comp comps[] = {{"a", 'a', 'a'}, {"c-e", 'c', 'e'}, {"e-g", 'e', 'g'}, {"b", 'b', 'b'}, {"f", 'f', 'f'}, {"h-j", 'h', 'j'}, {"\\x41-\\x43", 0x41, 0x43}, {"z", 'z', 'z'},
                                     {"c", 'c', 'c'}, {"e", 'e', 'e'}, {"d", 'd', 'd'}, {"a-g", 'a', 'g'}};   // singles that are end points / interior points of the ranges, a range covering others
        std::vector<int> pick;
        std::function<void()> rec = [&]() {
            if (!pick.empty()) {
                if ((idx++ % cfg.nshards) == cfg.shard && !deadline_hit) {
                    std::string body; rx::CharSet cs; for (int k : pick) { body += comps[k].text; for (int c = comps[k].lo; c <= comps[k].hi; ++c) cs.set(c); }
                    std::vector<rx::Atom> atoms = {rx::Atom{"[" + body + "]", cs}, rx::Atom{"[^" + body + "]", ~cs}, rx::Atom{"q", cs_of({'q'})}};
                    for (int a = 0; a < 2; ++a) { rx::AstPool ap; int root = ap.leaf(a); ctr["C03.set_composition_patterns"]++; check_pattern(ap, atoms, root); }
                    { rx::AstPool ap; int root = ap.bin(rx::CAT, ap.un(rx::REP, ap.leaf(0), 2), ap.leaf(2)); check_pattern(ap, atoms, root); }
                }
            }
            if (pick.size() == 4) return;
            for (int k = 0; k < 12; ++k) { if (std::find(pick.begin(), pick.end(), k) != pick.end()) continue; pick.push_back(k); rec(); pick.pop_back(); }
        };
        rec();
    }
    // "Single char": every printable character that is not a metacharacter stands for itself, alone, in a set, as a range end (0x20 .. 0x7e)
    for (int c = 0x20; c < 0x7f; ++c) {
        if (std::strchr("\\|()[]{}*+?.-^", c)) continue;
        if ((idx++ % cfg.nshards) != cfg.shard || deadline_hit) continue;
        std::string raw(1, char(c));
        std::vector<rx::Atom> atoms = {rx::Atom{raw, cs_of({c})}, rx::Atom{"[" + raw + "]", cs_of({c})}, rx::Atom{"[^" + raw + "]", ~cs_of({c})}, rx::Atom{"[ -" + raw + "]", cs_range(' ', c)}, rx::Atom{"[" + raw + "-~]", cs_range(c, '~')}};
        for (int a = 0; a < 5; ++a) { rx::AstPool ap; int root = ap.leaf(a); ctr["C03.raw_char_patterns"]++; check_pattern(ap, atoms, root); }
        { rx::AstPool ap; int root = ap.bin(rx::CAT, ap.un(rx::PLUS, ap.leaf(0)), ap.leaf(2)); check_pattern(ap, atoms, root); }
    }
    // "Escaped char": a backslash followed by any printable character other than x is that character (\\n is the letter n, not a line feed), alone, in a set, as a range end
    for (int c = 0x21; c < 0x7f; ++c) {
        if (c == 'x') continue;
        if ((idx++ % cfg.nshards) != cfg.shard || deadline_hit) continue;
        std::string esc = std::string("\\") + char(c);
        std::vector<rx::Atom> atoms = {rx::Atom{esc, cs_of({c})}, rx::Atom{"[" + esc + "]", cs_of({c})}, rx::Atom{"[^" + esc + "]", ~cs_of({c})}, rx::Atom{"[!-" + esc + "]", cs_range('!', c)}};
        for (int a = 0; a < 4; ++a) { rx::AstPool ap; int root = ap.leaf(a); ctr["C03.escaped_char_patterns"]++; check_pattern(ap, atoms, root); }
        { rx::AstPool ap; int root = ap.bin(rx::CAT, ap.leaf(0), ap.un(rx::OPT, ap.leaf(1))); check_pattern(ap, atoms, root); }
    }
    // one-dimensional sweep (not exhaustive): repetition counts of two, three and four digits, on shapes outside the known merge defect
    {
        const Pool& P = pools.back();   // atoms a, b, c
        for (int n : {4, 5, 6, 7, 8, 9, 11, 13, 20, 64, 99, 100, 101, 123, 128, 200, 255, 256, 257, 300, 512, 999, 1000}) {
            for (int shape = 0; shape < 6; ++shape) {
                if ((idx++ % cfg.nshards) != cfg.shard || deadline_hit) continue;
                rx::AstPool ap; int a = ap.leaf(0), b = ap.leaf(1), c = ap.leaf(2); int root = -1;
                if (shape == 0) root = ap.un(rx::REP, a, n);                                                                 // a{n}
                else if (shape == 1) root = ap.un(rx::REP, ap.un(rx::GROUP, ap.bin(rx::CAT, a, b)), n);                       // (ab){n}
                else if (shape == 2) root = ap.bin(rx::CAT, ap.un(rx::REP, ap.un(rx::GROUP, ap.bin(rx::ALT, a, b)), n), c);   // (a|b){n}c
                else if (shape == 3) { if (n > 300) continue; root = ap.bin(rx::CAT, ap.un(rx::REP, a, n), ap.un(rx::REP, b, n)); }   // a{n}b{n}
                else if (shape == 4) { if (n > 64) continue; root = ap.un(rx::REP, ap.un(rx::GROUP, ap.un(rx::REP, a, n)), 12); }      // (a{n}){12}
                else { if (n > 300) continue; root = ap.bin(rx::ALT, ap.un(rx::REP, a, n), ap.bin(rx::CAT, b, ap.un(rx::REP, c, n))); }   // a{n}|bc{n}
                ctr["C03.large_count_patterns"]++;
                check_pattern(ap, P.atoms, root);
            }
        }
    }
}

// ------------------------------------------------------------------------------------------------ lexer frame (C04, C10)
struct TokObs { int term, off, len, line, col; };
static std::vector<TokObs> g_toks; static const char* g_base = nullptr; static std::vector<TokObs> g_made;
template<int K> struct LexF { int operator()(std::string_view sv) const { if (++g_steps > g_step_limit) throw Horizon{}; g_made.push_back(TokObs{K, int(sv.data() - g_base), int(sv.size()), 0, 0}); return int(g_made.size()) - 1; } };
using TVi = term_value<int>;
static long g_accessor_mismatch = 0;   // get_sp() and get_line() / get_column() of one term value must agree
static void check_accessors(const TVi& t) { if (t.get_sp().line != t.get_line() || t.get_sp().column != t.get_column()) ++g_accessor_mismatch; }
struct ListF {
    int operator()() const { return 0; }
    int operator()(int n, const TVi& t) const { if (++g_steps > g_step_limit) throw Horizon{}; check_accessors(t); TokObs o = g_made[t.get_value()]; o.line = (int)t.get_line(); o.col = (int)t.get_column(); g_toks.push_back(o); return n + 1; }
};
constexpr char big0[] = "AAAAAAAAAAAAAAAAAAAAAAAAAAAAAAAAAAAAAAAAAAAAAAAAAAAAAAAAAAAAAAAA";
constexpr char big1[] = "BBBBBBBBBBBBBBBBBBBBBBBBBBBBBBBBBBBBBBBBBBBBBBBBBBBBBBBBBBBBBBBB";
constexpr char big2[] = "CCCCCCCCCCCCCCCCCCCCCCCCCCCCCCCCCCCCCCCCCCCCCCCCCCCCCCCCCCCCCCCC";
static_assert(sizeof(big0) == 65);
static auto make_list_parser() {
    static constexpr nterm<int> L("L");
    typed_term t0(string_term<65>(big0), LexF<0>{}); typed_term t1(string_term<65>(big1), LexF<1>{}); typed_term t2(string_term<65>(big2), LexF<2>{});
    return new parser(L, terms(t0, t1, t2), nterms(L), rules(L() >= ListF{}, L(L, t0) >= ListF{}, L(L, t1) >= ListF{}, L(L, t2) >= ListF{}));
}
// statement grammar with an error rule, for positions after recovery (C10): S -> eps | S I t2 | S error t2 ; I -> t0 | t1
struct StmtF {
    int operator()() const { return 0; }
    int operator()(int n, int, const TVi& semi) const { note(semi); return n + 1; }
    int operator()(int n, no_type, const TVi& semi) const { note(semi); return n + 100; }
    int operator()(const TVi& t) const { note(t); return 0; }
    static void note(const TVi& t) { if (++g_steps > g_step_limit) throw Horizon{}; check_accessors(t); TokObs o = g_made[t.get_value()]; o.line = (int)t.get_line(); o.col = (int)t.get_column(); g_toks.push_back(o); }
};
static auto make_stmt_parser() {
    static constexpr nterm<int> S("S"); static constexpr nterm<int> I("I");
    typed_term t0(string_term<65>(big0), LexF<0>{}); typed_term t1(string_term<65>(big1), LexF<1>{}); typed_term t2(string_term<65>(big2), LexF<2>{});
    return new parser(S, terms(t0, t1, t2), nterms(S, I), rules(S() >= StmtF{}, S(S, I, t2) >= StmtF{}, S(S, error, t2) >= StmtF{}, I(t0) >= StmtF{}, I(t1) >= StmtF{}));
}
// six-slot list grammar: more terms can end in one automaton state than a state's conflicted_recognition has slots (4)
constexpr char big3[] = "DDDDDDDDDDDDDDDDDDDDDDDDDDDDDDDDDDDDDDDDDDDDDDDDDDDDDDDDDDDDDDDD";
constexpr char big4[] = "EEEEEEEEEEEEEEEEEEEEEEEEEEEEEEEEEEEEEEEEEEEEEEEEEEEEEEEEEEEEEEEE";
constexpr char big5[] = "FFFFFFFFFFFFFFFFFFFFFFFFFFFFFFFFFFFFFFFFFFFFFFFFFFFFFFFFFFFFFFFF";
static auto make_list6_parser() {
    static constexpr nterm<int> L("L");
    typed_term t0(string_term<65>(big0), LexF<0>{}); typed_term t1(string_term<65>(big1), LexF<1>{}); typed_term t2(string_term<65>(big2), LexF<2>{});
    typed_term t3(string_term<65>(big3), LexF<3>{}); typed_term t4(string_term<65>(big4), LexF<4>{}); typed_term t5(string_term<65>(big5), LexF<5>{});
    return new parser(L, terms(t0, t1, t2, t3, t4, t5), nterms(L), rules(L() >= ListF{}, L(L, t0) >= ListF{}, L(L, t1) >= ListF{}, L(L, t2) >= ListF{}, L(L, t3) >= ListF{}, L(L, t4) >= ListF{}, L(L, t5) >= ListF{}));
}
using List6Parser = std::remove_pointer_t<decltype(make_list6_parser())>;
using ListParser = std::remove_pointer_t<decltype(make_list_parser())>;
using StmtParser = std::remove_pointer_t<decltype(make_stmt_parser())>;

struct TermSpec { char kind; std::string text; };   // kind 'c' char, 's' string, 'r' regex
static std::string spec_text(const std::vector<TermSpec>& ts) { std::string o; for (size_t i = 0; i < ts.size(); ++i) { if (i) o += " , "; o += ts[i].kind; o += ":"; o += ts[i].text; } return o; }

// replays create_lexer call by call (DESIGN 1.2) into the parser's own lexer_sm
template<size_t N, size_t M> static void add_string(const std::string& s, rgx::dfa_builder<N>& b, size16_t idx) { char arr[M]; for (size_t i = 0; i + 1 < M; ++i) arr[i] = s[i]; arr[M - 1] = 0; const char(&ref)[M] = arr; rgx::add_term_data_to_dfa(ref, b, idx); }
template<class P> static Built install_lexer(P& p, const std::vector<TermSpec>& ts, long& predicted_total) {
    Built r; predicted_total = 0;
    constexpr size_t N = P::lexer_dfa_size;
    auto& sm = p.lexer_sm; sm.clear();
    try {
        rgx::dfa_builder<N> b(sm);
        for (size_t i = 0; i < ts.size(); ++i) {
            const TermSpec& t = ts[i];
            if (t.kind == 'c') { rgx::add_term_data_to_dfa(t.text[0], b, size16_t(i)); predicted_total += 2; }
            else if (t.kind == 's') {
                switch (t.text.size()) { case 1: add_string<N, 2>(t.text, b, size16_t(i)); break; case 2: add_string<N, 3>(t.text, b, size16_t(i)); break; case 3: add_string<N, 4>(t.text, b, size16_t(i)); break; case 4: add_string<N, 5>(t.text, b, size16_t(i)); break; case 5: add_string<N, 6>(t.text, b, size16_t(i)); break; case 6: add_string<N, 7>(t.text, b, size16_t(i)); break; case 7: add_string<N, 8>(t.text, b, size16_t(i)); break; case 8: add_string<N, 9>(t.text, b, size16_t(i)); break; case 9: add_string<N, 10>(t.text, b, size16_t(i)); break; default: throw std::runtime_error("harness: string term too long"); }
                predicted_total += (long)t.text.size() * 2;
            } else {
                rgx::dfa_size_analyzer a; utils::no_stream ns0;
                auto ar = rgx::regex_parser::regex_parser_object.context_parse(a, parse_options{}.set_skip_whitespace(false), buffers::string_view_buffer(std::string_view(t.text)), ns0);
                if (!ar) throw std::runtime_error("invalid regex");
                predicted_total += ar->n;
                // the body of add_term_data_to_dfa(regex_pattern_data) with the buffer kind swapped
                using slice = utils::slice; utils::no_stream s{};
                std::optional<slice> res = rgx::regex_parser::regex_parser_object.context_parse(b, parse_options{}.set_skip_whitespace(false), buffers::string_view_buffer(std::string_view(t.text)), s);
                if (res.has_value()) { slice prev{0, size32_t(b.size())}; b.mark_end_states(res.value(), size16_t(i)); b.alt(prev, res.value()); }
                else throw std::runtime_error("Regex parse error");
            }
        }
        r.ok = true; r.states = sm.size();
    } catch (const BoundsHit& h) { r.bounds = true; r.what = h.what; }
    catch (const std::exception& e) { r.threw = true; r.what = e.what(); }
    return r;
}

// reference for one term: its language as a RefDfa
struct TermRef { rx::AstPool pool; std::vector<rx::Atom> atoms; int root = -1; rx::RefDfa dfa; };
// a tiny independent parser for the term texts used in the pools below (atoms: chars, [..] sets, '.', escapes; ops * + ? | () )
struct MiniParser {
    const std::string& s; size_t i = 0; TermRef& t;
    MiniParser(const std::string& s, TermRef& t) : s(s), t(t) {}
    int atom_of(const std::string& text, rx::CharSet cs) { t.atoms.push_back(rx::Atom{text, cs}); return t.pool.leaf((int)t.atoms.size() - 1); }
    int chr() { unsigned char c = s[i++]; if (c == '\\') { c = s[i++]; if (c == 'x') { int v = 0, nd = 0; while (nd < 2 && i < s.size() && isxdigit((unsigned char)s[i])) { v = v * 16 + (isdigit((unsigned char)s[i]) ? s[i] - '0' : (tolower(s[i]) - 'a' + 10)); ++i; ++nd; } return v; } } return c; }
    int primary() {
        if (s[i] == '(') { ++i; int e = alt(); ++i; return t.pool.un(rx::GROUP, e); }
        if (s[i] == '.') { ++i; rx::CharSet a; a.set(); return atom_of(".", a); }
        if (s[i] == '[') { ++i; bool neg = false; if (s[i] == '^') { neg = true; ++i; } rx::CharSet cs; while (s[i] != ']') { int a = chr(); if (s[i] == '-' && s[i + 1] != ']') { ++i; int b = chr(); for (int c = a; c <= b; ++c) cs.set(c); } else cs.set(a); } ++i; if (neg) cs = ~cs; return atom_of("[]", cs); }
        int c = chr(); rx::CharSet cs; cs.set(c); return atom_of("c", cs);
    }
    int quant() { int p = primary(); if (i < s.size()) { if (s[i] == '*') { ++i; return t.pool.un(rx::STAR, p); } if (s[i] == '+') { ++i; return t.pool.un(rx::PLUS, p); } if (s[i] == '?') { ++i; return t.pool.un(rx::OPT, p); } if (s[i] == '{') { ++i; int n = 0; while (isdigit((unsigned char)s[i])) n = n * 10 + (s[i++] - '0'); ++i; return t.pool.un(rx::REP, p, n); } } return p; }
    int cat() { int l = quant(); while (i < s.size() && s[i] != '|' && s[i] != ')') { int r = quant(); l = t.pool.bin(rx::CAT, l, r); } return l; }
    int alt() { int l = cat(); if (i < s.size() && s[i] == '|') { ++i; int r = alt(); return t.pool.bin(rx::ALT, l, r); } return l; }
};
static void make_term_ref(const TermSpec& ts, TermRef& t) {
    t = TermRef{};
    if (ts.kind == 'r') { MiniParser mp(ts.text, t); t.root = mp.alt(); }
    else { int l = -1; for (unsigned char c : ts.text) { rx::CharSet cs; cs.set(c); t.atoms.push_back(rx::Atom{std::string(1, char(c)), cs}); int a = t.pool.leaf((int)t.atoms.size() - 1); l = l < 0 ? a : t.pool.bin(rx::CAT, l, a); } t.root = l; }
    t.dfa.init(t.pool, t.atoms, t.root);
}

static bool is_ws(unsigned char c, bool skip_nl) { if (c == '\n') return skip_nl; return c == ' ' || c == '\t' || c == '\v' || c == '\f' || c == '\r'; }
struct OptCombo { bool ws, nl; const char* name; };
static const OptCombo OPTS[4] = {{true, true, "skip_whitespace,skip_newline"}, {true, false, "skip_whitespace,no-skip_newline"}, {false, true, "no-skip_whitespace"}, {false, false, "no-skip_whitespace,no-skip_newline"}};   // the README: skip_newline has no effect when whitespace is not skipped

struct Expect { bool ok = true; std::vector<TokObs> toks; int err_off = -1, err_line = 0, err_col = 0; unsigned char err_byte = 0; bool zero_len = false; };
static Expect ref_tokenize(std::vector<TermRef>& refs, const std::string& in, const OptCombo& oc) {
    Expect e; size_t p = 0; int line = 1, col = 1;
    auto advance = [&](size_t to) { for (; p < to; ++p) { if (in[p] == '\n') { ++line; col = 1; } else ++col; } };
    while (true) {
        if (oc.ws) { size_t q = p; while (q < in.size() && is_ws((unsigned char)in[q], oc.nl)) ++q; advance(q); }
        if (p >= in.size()) return e;
        int best = 0, who = -1;
        for (size_t i = 0; i < refs.size(); ++i) { int l = refs[i].dfa.longest(in, p); if (l > best) { best = l; who = (int)i; } if (l == 0) e.zero_len = true; }
        if (who < 0) { e.ok = false; e.err_off = (int)p; e.err_line = line; e.err_col = col; e.err_byte = (unsigned char)in[p]; return e; }
        e.toks.push_back(TokObs{who, (int)p, best, line, col});
        advance(p + best);
    }
}

static ListParser* g_list = nullptr; static StmtParser* g_stmt = nullptr;

static std::string toks_str(const std::vector<TokObs>& v, bool pos) { std::string o; for (auto& t : v) { o += "t" + std::to_string(t.term) + "@" + std::to_string(t.off) + "+" + std::to_string(t.len); if (pos) o += "[" + std::to_string(t.line) + ":" + std::to_string(t.col) + "]"; o += " "; } return o; }

// all-lengths check of the merged lexer automaton against the product of the per-term reference automata:
// in every reachable product state the recognised term must be the lowest-index term whose language contains the prefix
template<size_t N> static std::string lexer_product_check(const rgx::dfa<N>& sm, std::vector<TermRef>& refs, long& pairs) {
    std::map<std::vector<int>, int> seen; std::vector<std::vector<int>> q; std::vector<int> par, by;
    std::vector<int> s0{0}; for (size_t i = 0; i < refs.size(); ++i) s0.push_back(0);
    seen[s0] = 0; q.push_back(s0); par.push_back(-1); by.push_back(0);
    for (size_t i = 0; i < q.size(); ++i) {
        std::vector<int> cur = q[i];
        int want = -1; for (size_t k = 0; k < refs.size(); ++k) if (refs[k].dfa.accepting(cur[k + 1])) { want = (int)k; break; }
        int got = cur[0] < 0 ? -1 : (sm[cur[0]].conflicted_recognition[0] == uninitialized16 ? -1 : (int)sm[cur[0]].conflicted_recognition[0]);
        bool any_alive = false; for (size_t k = 0; k < refs.size(); ++k) if (cur[k + 1] >= 0) any_alive = true;
        bool mismatch = want != got;
        if (!mismatch && cur[0] < 0 && any_alive) {
            // real automaton is dead: harmless only if no term can still be completed from here (checked by exploring on)
        }
        if (mismatch || i > 20000) {
            if (i > 20000) return "";
            std::string w; for (int j = (int)i; par[j] >= 0; j = par[j]) w.insert(w.begin(), char(by[j]));
            return "after reading '" + vis(w) + "' the lexer recognises " + (got < 0 ? std::string("nothing") : "term " + std::to_string(got)) + ", the patterns say " + (want < 0 ? std::string("nothing") : "term " + std::to_string(want));
        }
        if (cur[0] < 0 && !any_alive) continue;
        for (int c = 0; c < 256; ++c) {
            std::vector<int> nx{real_step(sm, cur[0], c)}; bool alive = nx[0] >= 0;
            for (size_t k = 0; k < refs.size(); ++k) { int t = refs[k].dfa.step(cur[k + 1], c); nx.push_back(t); if (t >= 0) alive = true; }
            if (!alive) continue;
            if (!seen.count(nx)) { seen[nx] = (int)q.size(); q.push_back(nx); par.push_back((int)i); by.push_back(c); }
        }
    }
    pairs += (long)q.size();
    return "";
}

static std::vector<TermSpec> c04_pool(int which) {
    std::vector<TermSpec> P = {{'c', "a"}, {'c', "b"}, {'s', "ab"}, {'s', "abc"}, {'s', "ba"}, {'r', "a+"}, {'r', "[a-c]+"}, {'r', "ab*"}, {'r', "a|b"}, {'r', "[^a ]"}, {'s', "a"}, {'r', "(ab)+"}};
    if (which >= 1) { std::vector<TermSpec> Q = {{'r', "a*"}, {'r', "b?a"}, {'r', "[ab]c"}, {'s', "bb"}, {'r', "a{2}"}, {'r', "."}, {'r', "a[^;]*c"}, {'c', "c"}, {'c', " "}, {'c', std::string(1, '\0')}, {'r', "\\x0a"}, {'r', "[a-b]+c?"}, {'s', "cab"}, {'r', "(a|b)*c"}, {'r', "b+a?"}, {'r', "ab|a"}, {'r', "[^\\x00-\\x60]+"}, {'r', "c\\x20c"}, {'s', "a b"}}; P.insert(P.end(), Q.begin(), Q.end()); }
    return P;
}

template<class P> static void run_termset(P& p, const std::vector<TermSpec>& ts, const std::vector<std::string>& inputs, bool c10, int grammar_kind);

static void gen_inputs(const std::string& alphabet, int n, std::vector<std::string>& out) { out.assign(1, ""); for (size_t lo = 0, l = 0; l < (size_t)n; ++l) { size_t hi = out.size(); for (size_t i = lo; i < hi; ++i) for (char c : alphabet) out.push_back(out[i] + c); lo = hi; } }

static std::string expected_unexpected_char(const Expect& e) { std::ostringstream o; o << "[" << e.err_line << ":" << e.err_col << "] PARSE: Unexpected character: " << char(e.err_byte) << "\n"; return o.str(); }

template<class P> static void run_termset(P& p, const std::vector<TermSpec>& ts, const std::vector<std::string>& inputs, bool c10, int grammar_kind) {
    std::string subject = spec_text(ts); cur_subject = subject; cur_phase = "termset";
    long predicted = 0;
    Built b = install_lexer(p, ts, predicted);
    ctr["termsets"]++;
    const char* prop = c10 ? "C10" : "C04";
    if (!b.ok) {
        add_viol(prop, "lexer-construction-failed", subject, "", b.what);
        // every term of the pools is a valid term: a rejected (or overrunning) construction means a capacity the library fixed for itself did not suffice
        add_viol("C12", b.bounds ? "lexer-capacity-overrun" : "valid-termset-rejected", subject, "", "the lexer for this valid term set could not be built: " + b.what);
        return;
    }
    ctr["C12.termset_evals"]++;
    if ((long)b.states > predicted) add_viol("C12", "lexer-dfa-size-underestimated", subject, "", "sum of the terms' dfa_size is " + std::to_string(predicted) + ", the builder uses " + std::to_string(b.states));
    std::vector<TermRef> refs(ts.size()); for (size_t i = 0; i < ts.size(); ++i) make_term_ref(ts[i], refs[i]);
    bool nullable = false; for (auto& r : refs) if (r.dfa.accepting(0)) nullable = true;
    std::string prodwhy; long pairs = 0;
    if (!c10) { prodwhy = lexer_product_check(p.lexer_sm, refs, pairs); ctr["lexer_product_states"] += pairs; }
    std::string tkey = "lex:" + jw::hex(subject);
    bool reported_known = false;
    if (!prodwhy.empty()) { add_viol("C04", "merged-automaton-wrong", subject, "", prodwhy, tkey + ":" + hex8(fnv(prodwhy))); reported_known = true; }
    else if (!c10) ctr["C04.termsets_equivalent_all_lengths"]++;
    if (nullable) ctr["termsets_with_nullable_term"]++;
    for (int oi = 0; oi < 4; ++oi) {
        if (cfg.opt >= 0 && oi != cfg.opt) continue;
        const OptCombo& oc = OPTS[oi];
        for (const std::string& in : inputs) {
            cur_input = in;
            Expect ex = ref_tokenize(refs, in, oc);
            g_toks.clear(); g_made.clear(); g_base = in.data(); g_steps = 0;
            std::ostringstream es; bool ok = false, horizon = false; std::string thrown;
            try {
                parse_options po; po.set_skip_whitespace(oc.ws).set_skip_newline(oc.nl);   // a chain of setters on a named object (they return *this)
                auto r = p.parse(po, buffers::string_view_buffer(std::string_view(in)), static_cast<std::ostream&>(es));
                ok = r.has_value();
            } catch (const Horizon&) { horizon = true; }
            catch (const BoundsHit& h) { thrown = h.what; }
            catch (const std::exception& e) { thrown = e.what(); }
            ctr["parses"]++; ctr[std::string(prop) + ".evals"]++;
            if (c10 && thrown.empty() && !horizon) {
                // the same parse without any error stream (utils::no_stream): the term values that reach the functors, positions included, must be the same
                std::vector<TokObs> with_stream = g_toks; g_toks.clear(); g_made.clear(); g_steps = 0; bool ok2 = false, bad2 = false;
                try { utils::no_stream ns; auto r2 = p.parse(parse_options{}.set_skip_whitespace(oc.ws).set_skip_newline(oc.nl), buffers::string_view_buffer(std::string_view(in)), ns); ok2 = r2.has_value(); } catch (...) { bad2 = true; }
                if (bad2 || ok2 != ok || toks_str(g_toks, true) != toks_str(with_stream, true))
                    add_viol("C10", "positions-depend-on-the-stream", subject + (grammar_kind ? " | stmt grammar | " : " | ") + oc.name, in, "without an error stream the functors saw " + toks_str(g_toks, true) + (ok2 ? "(accepted)" : "(rejected)") + ", with a stream " + toks_str(with_stream, true) + (ok ? "(accepted)" : "(rejected)"));
                g_toks = with_stream;
            }
            if (g_accessor_mismatch) { add_viol("C10", "position-accessors-disagree", subject, in, "get_sp() of a term value differs from its get_line() / get_column()"); g_accessor_mismatch = 0; }
            if (!thrown.empty()) { add_viol(prop, "exception", subject, in, thrown); continue; }
            if (grammar_kind == 0) {
                // list grammar: every token sequence is a sentence, so the outcome is decided by the lexer alone
                std::string exp_t = toks_str(ex.toks, c10), got_t = toks_str(g_toks, c10);
                std::string kind, det;
                if (horizon) { kind = "no-progress"; det = "the parse did not terminate (zero-length token?)"; }
                else if (ex.ok) {
                    if (!ok) { kind = "valid-tokens-rejected"; det = "expected tokens " + exp_t + " but the parse failed: " + es.str(); }
                    else if (exp_t != got_t) { kind = c10 ? "wrong-source-point" : "wrong-tokens"; det = "delivered " + got_t + " expected " + exp_t; }
                    else if (!es.str().empty()) { kind = "output-on-success"; det = es.str(); }
                } else {
                    std::string em = expected_unexpected_char(ex);
                    // tokens before the failure are shifted but never reduced with the list item rule only if the failure comes first; compare delivered prefix
                    if (ok) { kind = "unmatchable-input-accepted"; det = "no term matches at offset " + std::to_string(ex.err_off) + " but the parse succeeded with " + got_t; }
                    else if (es.str() != em) { kind = "wrong-lexical-error-report"; det = "stream '" + es.str() + "' expected '" + em + "'"; }
                }
                if (!kind.empty()) {
                    // a term set whose merged automaton is already known to be wrong (listed instance) explains its input-level failures
                    std::string known = prodwhy.empty() ? std::string() : tkey + ":" + hex8(fnv(prodwhy));
                    add_viol(prop, kind, subject + " | " + oc.name, in, det, known, known.empty() ? 6 : 2);
                }
                outcomes[prop].insert(std::string(ex.ok ? "tokens" : "lexerr") + std::to_string(std::min<size_t>(ex.toks.size(), 4)) + (oi ? "-o" + std::to_string(oi) : ""));
                if (ex.ok && ex.toks.size() >= 2 && !in.empty() && in.size() <= 48) add_sample(prop, jw::Obj().s("terms", subject).s("options", oc.name).s("input_hex", jw::hex(in)).s("tokens", exp_t).str());
            } else {
                // statement grammar with recovery (C10 only): every term value that reaches a functor must carry its true position,
                // and every message must be prefixed with the true position of the term it is about
                std::vector<int> lines(in.size() + 1), cols(in.size() + 1); { int l = 1, c = 1; for (size_t k = 0; k <= in.size(); ++k) { lines[k] = l; cols[k] = c; if (k < in.size()) { if (in[k] == '\n') { ++l; c = 1; } else ++c; } } }
                for (auto& t : g_toks) {
                    int line = lines[t.off], col = cols[t.off];
                    if (line != t.line || col != t.col) { add_viol("C10", "wrong-source-point", subject + " | stmt grammar | " + oc.name, in, "term at offset " + std::to_string(t.off) + " reported at [" + std::to_string(t.line) + ":" + std::to_string(t.col) + "], true position [" + std::to_string(line) + ":" + std::to_string(col) + "]"); break; }
                }
                // messages: "[l:c] PARSE: Syntax error: Unexpected 'X'" - the position must be that of a term start (or end of input after skipping) consistent with the reference tokenizer
                // expected messages: the documented driver (with recovery) on the reference token stream
                static ref::Gram sg; static ref::LR1 sl; static bool sinit = false;
                if (!sinit) { sinit = true; sg.NT = 2; sg.T = 3; sg.R = 5; int T0 = ref::TERM, E = ref::TERM + 4;
                    sg.lhs[0] = 0; sg.n[0] = 0; sg.lhs[1] = 0; sg.n[1] = 3; sg.rhs[1][0] = 0; sg.rhs[1][1] = 1; sg.rhs[1][2] = T0 + 2;
                    sg.lhs[2] = 0; sg.n[2] = 3; sg.rhs[2][0] = 0; sg.rhs[2][1] = E; sg.rhs[2][2] = T0 + 2; sg.lhs[3] = 1; sg.n[3] = 1; sg.rhs[3][0] = T0; sg.lhs[4] = 1; sg.n[4] = 1; sg.rhs[4][0] = T0 + 1;
                    sg.finish(); sl = ref::build_lr1(sg, ref::analyse(sg), false); if (!sl.conflict_free()) { std::fprintf(stderr, "HARNESS ERROR: statement grammar not LR(1)\n"); std::exit(2); } }
                std::vector<ref::Tok> rtoks; for (auto& t : ex.toks) rtoks.push_back(ref::Tok{t.term, t.off, t.len});
                ref::Run run = ref::drive(sg, ref::RefTable{sl}, rtoks, 4000 + 20 * (int)rtoks.size(), !ex.ok);
                if (run.horizon) { std::fprintf(stderr, "HARNESS ERROR: reference driver hit its step limit\n"); std::exit(2); }
                std::ostringstream want; static const char* tnames[3] = {big0, big1, big2};
                int eline = 1, ecol = 1; { size_t endp = in.size(); for (size_t k = 0; k < endp; ++k) { if (in[k] == '\n') { ++eline; ecol = 1; } else ++ecol; } }
                for (size_t k = 0; k < run.err_tok.size(); ++k) {
                    int ti = run.err_tok[k];
                    if (ti < (int)ex.toks.size()) want << "[" << ex.toks[ti].line << ":" << ex.toks[ti].col << "] PARSE: Syntax error: Unexpected '" << tnames[ex.toks[ti].term] << "'\n";
                    else want << "[" << eline << ":" << ecol << "] PARSE: Syntax error: Unexpected '<eof>'\n";
                }
                if (run.lex_error) want << expected_unexpected_char(ex);
                bool want_ok = run.ok;
                if (horizon) add_viol("C10", "no-progress", subject + " | stmt grammar | " + oc.name, in, "parse did not terminate");
                else if (ok != want_ok) add_viol("C10", "wrong-outcome", subject + " | stmt grammar | " + oc.name, in, std::string("parse ") + (ok ? "succeeded" : "failed") + ", expected the opposite; stream " + vis(es.str()));
                else if (es.str() != want.str()) add_viol("C10", "wrong-message-position", subject + " | stmt grammar | " + oc.name, in, "stream '" + vis(es.str()) + "' expected '" + vis(want.str()) + "'");
                if (run.nerrors && run.ok) ctr["C10.recovered_runs"]++;
                outcomes["C10"].insert(std::string("stmt-") + (ok ? "ok" : "fail") + (es.str().empty() ? "" : "-msg"));
            }
        }
    }
    (void)reported_known;
}

static void run_c04() {
    g_list = make_list_parser();
    std::vector<TermSpec> pool = c04_pool(cfg.pool);
    std::vector<std::string> inputs; gen_inputs(std::string("abc \n\t\r\v\f", 9) + std::string(1, '\0'), cfg.maxlen, inputs);
    long idx = 0;
    std::vector<std::vector<TermSpec>> sets;
    for (size_t i = 0; i < pool.size(); ++i) sets.push_back({pool[i]});
    if (cfg.setsize >= 2) for (size_t i = 0; i < pool.size(); ++i) for (size_t j = 0; j < pool.size(); ++j) if (i != j) sets.push_back({pool[i], pool[j]});
    if (cfg.setsize >= 3) for (size_t i = 0; i < pool.size(); ++i) for (size_t j = 0; j < pool.size(); ++j) for (size_t k = 0; k < pool.size(); ++k) if (i != j && j != k && i != k) sets.push_back({pool[i], pool[j], pool[k]});
    for (auto& ts : sets) {
        if ((idx++ % cfg.nshards) != cfg.shard) continue;
        if (elapsed() > cfg.deadline) { deadline_hit = true; break; }
        run_termset(*g_list, ts, inputs, false, 0);
    }
    if (cfg.shard == 0 && !deadline_hit) {
        // one-dimensional sweep (not exhaustive): lexeme lengths around 2^8, 2^16 and 2^17 - the lexeme handed to the functor must be the whole slice
        std::vector<std::string> longs;
        for (size_t n : {255u, 256u, 257u, 65534u, 65535u, 65536u, 65537u, 70000u, 131071u, 131072u, 131073u, 200000u}) { longs.push_back(std::string(n, 'a')); longs.push_back(std::string(n, 'a') + "b" + std::string(n, 'a')); longs.push_back("b " + std::string(n, 'a') + " b"); }
        long saved = g_step_limit; g_step_limit = 10000000;
        run_termset(*g_list, {{'r', "a+"}, {'c', "b"}}, longs, false, 0);
        run_termset(*g_list, {{'c', "b"}, {'r', "[ac]+"}}, longs, false, 0);
        g_step_limit = saved; ctr["C04.long_lexeme_sweep_inputs"] += (long)longs.size() * 2;
        // every byte value on its own, and byte sequences a maintainer might be tempted to treat specially (byte order marks, Unicode spaces and line
        // separators in UTF-8, NEL, Ctrl-Z, DEL): alone, before, after and between terms - exactly the documented whitespace is skipped, nothing else
        std::vector<std::string> bytes;
        for (int b = 0; b < 256; ++b) { std::string x(1, char(b)); bytes.push_back(x); bytes.push_back("a" + x); bytes.push_back(x + "a"); bytes.push_back("a" + x + "a"); bytes.push_back(x + x + "a"); }
        for (const char* sq : {"\xef\xbb\xbf", "\xff\xfe", "\xfe\xff", "\xc2\xa0", "\xc2\x85", "\xe2\x80\xa8", "\xe2\x80\xa9", "\xe2\x80\x8b", "\xe3\x80\x80", "\r\n", "\n\r", "\x1a", "\x7f", "\x1b[0m", "\xef\xbb", "\xef\xbb\xbf\xef\xbb\xbf"}) {
            std::string q(sq); bytes.push_back(q); bytes.push_back(q + "a"); bytes.push_back("a" + q); bytes.push_back("a" + q + "a"); bytes.push_back(" " + q + "a"); bytes.push_back(q + " a"); bytes.push_back("a\n" + q + "a");
        }
        run_termset(*g_list, {{'c', "a"}}, bytes, false, 0);
        run_termset(*g_list, {{'c', "a"}, {'r', "[\\x80-\\xff]+"}}, bytes, false, 0);
        run_termset(*g_list, {{'r', "[^a]"}, {'c', "a"}}, bytes, false, 0);
        run_termset(*g_list, {{'c', "\xe9"}, {'s', "\xc3\xa9"}, {'c', "a"}}, bytes, false, 0);   // char and string terms made of bytes >= 0x80
        run_termset(*g_list, {{'s', "a\xff"}, {'c', "\x80"}, {'c', "\xff"}}, bytes, false, 0);
        {   // regex terms that can match the empty string: an empty match is no match ("if no term matches a non-empty prefix the parse fails with Unexpected character")
            std::vector<std::string> small; gen_inputs("1+x ", 4, small);
            run_termset(*g_list, {{'r', "[0-9]*"}, {'c', "+"}}, small, false, 0);
            run_termset(*g_list, {{'c', "+"}, {'r', "1?"}, {'r', "x{0}"}}, small, false, 0);
            run_termset(*g_list, {{'r', "(1?)"}, {'c', "x"}}, small, false, 0); }
        {   // a string term with an embedded NUL byte: its length is that of the array, not of the C string
            std::vector<std::string> nul = bytes; for (const char* x : {"a", "ab", "b"}) { std::string t(x); nul.push_back(std::string("a\0b", 3) + t); nul.push_back(t + std::string("a\0b", 3)); nul.push_back(std::string("a\0", 2) + t); }
            run_termset(*g_list, {{'s', std::string("a\0b", 3)}, {'c', "a"}, {'c', "b"}}, nul, false, 0);
            run_termset(*g_list, {{'c', "a"}, {'s', std::string("\0\0", 2)}, {'s', std::string("b\0", 2)}}, nul, false, 0); }
        ctr["C04.byte_sweep_inputs"] += (long)bytes.size() * 3;
    }
}

// ordered term sets of size 4..6 from a pool in which most terms recognise "a": more terms end in one state than it has slots for
static void run_c04_wide() {
    List6Parser* p6 = make_list6_parser();
    std::vector<TermSpec> pool = {{'c', "a"}, {'r', "a|b"}, {'s', "a"}, {'s', "ab"}, {'r', "(a)"}, {'r', "ab|a"}, {'r', "ab?"}, {'r', "b|a"}, {'r', "a?b"}, {'r', "a|ab"}};
    if (cfg.pool == 0) pool.resize(8);
    std::vector<std::string> inputs; gen_inputs("abc ", cfg.maxlen, inputs);
    if (cfg.pool == 2) {
        // keyword-like string terms sharing long prefixes (no regex term: outside the known merge defect)
        pool = {{'s', "if"}, {'s', "iff"}, {'s', "in"}, {'s', "int"}, {'s', "integer"}, {'s', "interface"}, {'c', "i"}, {'s', "inte"}};
        gen_inputs("ifnt ", cfg.maxlen, inputs);
        std::vector<std::string> kw = {"if", "iff", "in", "int", "integer", "interface", "i", "inte", "integ", "interfac", "interfaces", "intege", "ifi", "inti"};
        for (auto& a : kw) { inputs.push_back(a); for (auto& b : kw) { inputs.push_back(a + b); inputs.push_back(a + " " + b); inputs.push_back(a + "\n" + b + " " + a); } }
    }
    std::vector<std::vector<TermSpec>> sets; std::vector<int> pick;
    std::function<void(size_t)> rec = [&](size_t want) {
        if (pick.size() == want) { std::vector<TermSpec> ts; for (int i : pick) ts.push_back(pool[i]); sets.push_back(ts); return; }
        for (size_t i = 0; i < pool.size(); ++i) { if (std::find(pick.begin(), pick.end(), (int)i) != pick.end()) continue; pick.push_back((int)i); rec(want); pick.pop_back(); }
    };
    for (int k = 4; k <= cfg.setsize; ++k) rec((size_t)k);
    long idx = 0;
    for (auto& ts : sets) {
        if ((idx++ % cfg.nshards) != cfg.shard) continue;
        if (elapsed() > cfg.deadline) { deadline_hit = true; break; }
        run_termset(*p6, ts, inputs, false, 0);
    }
}

static void run_c10() {
    g_list = make_list_parser(); g_stmt = make_stmt_parser();
    // term sets with single-char terms, a multi-character term and a term whose lexeme may span lines
    std::vector<std::vector<TermSpec>> sets = {
        {{'c', "x"}, {'r', "q[^;]*"}, {'c', ";"}},
        {{'r', "x+"}, {'s', "q\nq"}, {'c', ";"}},
        {{'c', "x"}, {'r', "q(\\x0a|\\x09|\\x0d|q)*"}, {'c', ";"}},
        // a short term that is a prefix of a longer one: the lexer reads past the lexeme it finally delivers (also across a newline)
        {{'c', "x"}, {'s', "xqq"}, {'c', ";"}},
        {{'c', "q"}, {'s', "q\nq;"}, {'c', ";"}},
        // a term that is a lone newline (it is a lexeme whenever newlines are not skipped), next to ordinary one-byte terms
        {{'c', "x"}, {'c', "\n"}, {'c', ";"}},
        {{'r', "x+"}, {'r', "\\x0a"}, {'c', ";"}},
    };
    std::vector<std::string> inputs; gen_inputs(std::string("xq; \t\r\n\x80\v\f"), cfg.maxlen, inputs);   // 0x80: a UTF-8 continuation byte is one column like every other byte
    long idx = 0;
    for (auto& ts : sets) for (int gk = 0; gk < 2; ++gk) {
        if ((idx++ % cfg.nshards) != cfg.shard) continue;
        if (gk == 0) run_termset(*g_list, ts, inputs, true, 0); else run_termset(*g_stmt, ts, inputs, true, 1);
    }
    {
        // one-dimensional sweep (not exhaustive): columns and line numbers around 2^8, 2^16 and 2^17, reached by whitespace runs, by newline runs,
        // by a long lexeme and by many terms on one line; term values and both kinds of message must still carry the true position
        std::vector<std::string> longs;
        // lines and columns of seven digits each (a formatted position of 17 characters)
        longs.push_back(std::string(1000000, '\n') + std::string(1000000, ' ') + "?");
        longs.push_back(std::string(1000000, '\n') + std::string(1000000, ' ') + "x x");
        longs.push_back(std::string(1234567, '\n') + "q" + std::string(1234567, 'a') + ";x");
        for (size_t n : {255u, 256u, 65534u, 65535u, 65536u, 65537u, 70000u, 131072u, 200000u}) {
            longs.push_back(std::string(n, ' ') + "x");  longs.push_back(std::string(n, '\n') + "x;");
            longs.push_back(std::string(n, ' ') + "?");  longs.push_back(std::string(n, '\n') + " ?");          // Unexpected character far right / far down
            longs.push_back("q" + std::string(n, 'a') + ";x");                                                 // a term after a lexeme of n+1 bytes
            longs.push_back("q" + std::string(n / 2, '\n') + ";" + std::string(n / 2, '\n') + "x");            // a multi-line lexeme, then more lines
            std::string many; for (size_t i = 0; i < n / 2; ++i) many += "x;"; longs.push_back(many + "x");      // n terms on one line
            longs.push_back(std::string(n, '\n') + "x x");                                                     // syntax error (statement grammar) far down
        }
        { std::vector<std::string> mine; for (size_t k = 0; k < longs.size(); ++k) if ((long)(k % cfg.nshards) == cfg.shard) mine.push_back(longs[k]); longs.swap(mine); }
        long saved = g_step_limit; g_step_limit = 50000000;
        int keep = cfg.opt;
        run_termset(*g_list, sets[0], longs, true, 0);
        run_termset(*g_stmt, sets[0], longs, true, 1);
        // longest-match fallback over many bytes and lines: the second term needs 40 more "newline x" groups and a final q; without them the lexer has read
        // up to 80 bytes (40 lines) ahead and must deliver the single x where it started - positions of everything after it must be unaffected
        if (cfg.shard == 0) {
            std::vector<TermSpec> fb = {{'c', "x"}, {'r', "x(\\x0ax){40}q"}, {'c', ";"}};
            std::vector<std::string> fin;
            for (int k : {1, 2, 39, 40, 41, 80, 81}) { std::string run = "x"; for (int i = 0; i < k; ++i) run += "\nx"; for (const char* tail : {"", "q", ";", " ;", "\n;x", "q;x", "?", "\n\n x ;"}) fin.push_back(run + tail); fin.push_back("; " + run + "q;" + run + ";"); }
            run_termset(*g_list, fb, fin, true, 0);
            run_termset(*g_stmt, fb, fin, true, 1);
            run_termset(*g_list, fb, fin, false, 0);
            ctr["C10.fallback_sweep_inputs"] += (long)fin.size() * 3;
        }
        g_step_limit = saved; cfg.opt = keep; ctr["C10.long_position_sweep_inputs"] += (long)longs.size() * 2;
    }
}

// ------------------------------------------------------------------------------------------------ C17: every string as a pattern
enum Verdict { V_VALID, V_MALFORMED, V_UNSPEC };
static bool printable(unsigned char c) { return c >= 0x20 && c <= 0x7e; }
// Three-valued classifier written from the README table and the property's list of malformed classes.
static Verdict classify(const std::string& s, std::string& why) {
    // tokenisation: A atom, * + ? quantifiers, { } | ( ), D digit (an atom that may also appear inside {})
    std::vector<char> tk; bool unspec = false;
    for (size_t i = 0; i < s.size();) {
        unsigned char c = s[i];
        if (!printable(c)) { why = "raw non-printable byte"; return V_MALFORMED; }
        if (c == '\\') {
            if (i + 1 >= s.size()) { unspec = true; tk.push_back('A'); ++i; continue; }   // trailing backslash: not in the property's list
            unsigned char d = s[i + 1];
            if (!printable(d)) { why = "raw non-printable byte"; return V_MALFORMED; }
            if (d == 'x') { size_t j = i + 2, nd = 0; while (nd < 2 && j < s.size() && isxdigit((unsigned char)s[j])) { ++j; ++nd; } if (nd != 2) unspec = true; i = j; tk.push_back('A'); continue; }
            i += 2; tk.push_back('A'); continue;
        }
        if (c == '[') {
            size_t j = i + 1; if (j < s.size() && s[j] == '^') ++j;
            size_t items = 0; bool closed = false, odd = false;
            while (j < s.size()) {
                unsigned char d = s[j];
                if (!printable(d)) { why = "raw non-printable byte"; return V_MALFORMED; }
                if (d == ']') { closed = true; break; }
                if (d == '\\') { if (j + 1 >= s.size()) { j = s.size(); break; } if (!printable((unsigned char)s[j + 1])) { why = "raw non-printable byte"; return V_MALFORMED; } if (s[j + 1] == 'x') { size_t q = j + 2, nd = 0; while (nd < 2 && q < s.size() && isxdigit((unsigned char)s[q])) { ++q; ++nd; } if (nd != 2) odd = true; j = q; } else j += 2; ++items; continue; }
                if (d == '-' || d == '^' || d == '[') odd = true;
                ++j; ++items;
            }
            if (!closed) { why = "unterminated set"; return V_MALFORMED; }
            if (items == 0 || odd) unspec = true;
            i = j + 1; tk.push_back('A'); continue;
        }
        if (c == ']' || c == '-' || c == '^') { unspec = true; tk.push_back('A'); ++i; continue; }   // not mentioned outside sets
        if (c == '*' || c == '+' || c == '?' || c == '{' || c == '}' || c == '|' || c == '(' || c == ')') { tk.push_back(char(c)); ++i; continue; }
        tk.push_back(isdigit(c) ? 'D' : 'A'); ++i;
    }
    // structure
    int depth = 0; char prev = 0;   // prev: 0 start, 'A' after a primary, 'Q' after a quantifier, '|' , '('
    for (size_t i = 0; i < tk.size(); ++i) {
        char t = tk[i];
        if (t == 'A' || t == 'D') { prev = 'A'; continue; }
        if (t == '(') { ++depth; prev = '('; continue; }
        if (t == ')') { if (depth == 0) { why = "unbalanced group"; return V_MALFORMED; } if (prev == '|') { why = "empty alternative"; return V_MALFORMED; } if (prev == '(') unspec = true; --depth; prev = 'A'; continue; }
        if (t == '|') { if (prev == 0 || prev == '(' || prev == '|') { why = "empty alternative"; return V_MALFORMED; } prev = '|'; continue; }
        if (t == '*' || t == '+' || t == '?') { if (prev == 0 || prev == '(' || prev == '|') { why = "leading quantifier"; return V_MALFORMED; } if (prev == 'Q') unspec = true; prev = 'Q'; continue; }
        if (t == '{') {
            size_t j = i + 1, nd = 0; while (j < tk.size() && tk[j] == 'D') { ++j; ++nd; }
            if (j >= tk.size() || tk[j] != '}' || nd == 0) { why = "dangling or empty repetition"; return V_MALFORMED; }
            if (prev == 0 || prev == '(' || prev == '|') { why = "leading quantifier"; return V_MALFORMED; }
            if (prev == 'Q') unspec = true;
            if (nd > 3) unspec = true;
            i = j; prev = 'Q'; continue;
        }
        if (t == '}') { unspec = true; prev = 'A'; continue; }
    }
    if (depth != 0) { why = "unbalanced group"; return V_MALFORMED; }
    if (!tk.empty() && prev == '|') { why = "empty alternative"; return V_MALFORMED; }
    if (tk.empty()) { unspec = true; }
    if (unspec) return V_UNSPEC;
    return V_VALID;
}

static void run_c17() {
    g_sm = new BigDfa();
    static const unsigned char alpha_full[] = {'a', 'b', '2', '\\', 'x', 'F', '[', ']', '^', '-', '(', ')', '*', '+', '?', '{', '}', '|', '.', 0x01, 0x80};
    static const unsigned char alpha_meta[] = {'a', '\\', '[', ']', '(', ')', '*', '{', '}', '|', '2'};
    static const unsigned char alpha_set[] = {'a', '[', ']', '-', '^', '\\', 0x01, 0x7f, 'x', '2'};
    std::string alphabet = cfg.pool == 1 ? std::string((const char*)alpha_meta, sizeof alpha_meta) : cfg.pool == 2 ? std::string((const char*)alpha_set, sizeof alpha_set) : std::string((const char*)alpha_full, sizeof alpha_full);
    std::vector<int> idx(cfg.maxlen, 0);
    long count = 0;
    for (int len = 1; len <= cfg.maxlen; ++len) {
        std::vector<int> d(len, 0);
        while (true) {
            if ((count++ % cfg.nshards) == cfg.shard) {
                if ((count & 4095) == 0 && elapsed() > cfg.deadline) { deadline_hit = true; return; }
                std::string pat; for (int k = 0; k < len; ++k) pat += char(alphabet[d[k]]);
                cur_subject = pat; cur_phase = "c17";
                std::string why; Verdict v = classify(pat, why);
                // held exactly as cstring_buffer holds it: text followed by one NUL inside the array
                std::vector<char> block(pat.begin(), pat.end()); block.push_back(0);
                g_buf.reset(); g_steps = 0;
                Built b = build_pattern(*g_sm, checked_buffer(block.data(), pat.size(), true));
                if (b.too_big) { ctr["C17.too_big_for_harness_builder"]++; b.ok = b.analyzer_ok; }   // verdict of the size-analysis context only
                ctr["C17.evals"]++; ctr[v == V_VALID ? "C17.valid" : v == V_MALFORMED ? "C17.malformed" : "C17.unspecified"]++;
                if (b.bounds || b.threw) add_viol("C17", "exception-while-parsing-pattern", pat, "", b.what);
                if (g_buf.deref_out) add_viol("C17", "read-past-pattern-end", pat, "", std::to_string(g_buf.deref_out) + " reads beyond the pattern's terminator");
                if (g_buf.move_out) ctr["C17.iterator_formed_past_end_without_read"]++;   // undefined pointer arithmetic, no read: judged by C06/C07
                if (b.ok != b.analyzer_ok) add_viol("C17", "contexts-disagree", pat, "", "size analysis and builder disagree on validity");
                if (v == V_VALID && !b.ok) add_viol("C17", "valid-pattern-rejected", pat, "", "documented syntax refused");
                if (v == V_MALFORMED && b.ok) add_viol("C17", "malformed-pattern-accepted", pat, "", why + ": a matcher was produced");
                outcomes["C17"].insert(std::string(v == V_VALID ? "valid" : v == V_MALFORMED ? "malformed:" + why : "unspecified") + (b.ok ? "/accepted" : "/rejected"));
                if (v == V_MALFORMED && len >= 3) add_sample("C17", jw::Obj().s("pattern", vis(pat)).s("class", why).b("rejected", !b.ok).str(), 8);
            }
            int k = len - 1; while (k >= 0 && ++d[k] == (int)alphabet.size()) d[k--] = 0;
            if (k < 0) break;
        }
    }
}

// ------------------------------------------------------------------------------------------------ single-case replay
static bool run_one() {
    if (cfg.mode == "c03-one") {
        // pattern text is re-parsed by the independent MiniParser to obtain the reference
        g_sm = new BigDfa(); TermRef t; make_term_ref(TermSpec{'r', cfg.one}, t);
        // print form must round-trip for the check to be meaningful
        Built b = build_pattern(*g_sm, buffers::string_view_buffer(std::string_view(cfg.one)));
        if (!b.ok) { std::printf("pattern refused\n"); return true; }
        bool any = false;
        std::vector<std::string> in; if (cfg.has_input) in.push_back(cfg.input);
        for (auto& w : in) { bool rm = real_match(*g_sm, w), fm = t.dfa.match(w); std::printf("input %s: real %d reference %d\n", vis(w).c_str(), rm, fm); if (rm != fm) any = true; }
        return any;
    }
    return false;
}

// conformance support (DESIGN 1.6): list the explored patterns / dump the run-time built automata in canonical text form
static void run_patterns(bool dump) {
    g_sm = new BigDfa();
    auto pools = make_pools();
    std::set<std::string> seen;
    for (size_t pi = 0; pi < pools.size(); ++pi) {
        if (cfg.pool > 0 && (int)pi >= cfg.pool) break;
        for (int k = 1; k <= cfg.K; ++k) {
            rx::AstPool ap;
            enum_asts(ap, (int)pools[pi].atoms.size(), k, true, [&](int root) {
                std::string pat = rx::print(ap, pools[pi].atoms, root);
                if (!seen.insert(pat).second) return;
                Built b = build_pattern(*g_sm, buffers::string_view_buffer(std::string_view(pat)));
                if (b.too_big) return;
                if (!dump) { std::printf("%s\n", pat.c_str()); return; }
                if (!b.ok) { std::printf("### %s\nREFUSED\n", pat.c_str()); return; }
                dump_dfa(pat.c_str(), *g_sm, b.predicted);
            });
        }
    }
}

static bool parse_termset_line(const std::string& line, std::vector<TermSpec>& ts) {
    ts.clear(); size_t p = 0;
    while (p < line.size()) { size_t e = line.find(" | ", p); std::string t = line.substr(p, e == std::string::npos ? std::string::npos : e - p); if (t.size() < 3 || t[1] != ':') return false; ts.push_back(TermSpec{t[0], t.substr(2)}); if (e == std::string::npos) break; p = e + 3; }
    return !ts.empty() && ts.size() <= 3;
}
static void run_dump_termsets(const std::string& file) {
    g_list = make_list_parser();
    std::ifstream in(file); std::string line;
    while (std::getline(in, line)) {
        if (line.empty() || line[0] == '#') continue;
        std::vector<TermSpec> ts; if (!parse_termset_line(line, ts)) { std::printf("### %s\nBAD-LINE\n", line.c_str()); continue; }
        long predicted = 0; Built b = install_lexer(*g_list, ts, predicted);
        if (!b.ok) { std::printf("### %s\nREFUSED %s\n", line.c_str(), b.what.c_str()); continue; }
        dump_dfa(line.c_str(), g_list->lexer_sm, predicted);
    }
}

static void crash_handler(int sig) {
    char buf[1024]; int n = std::snprintf(buf, sizeof buf, "CRASH signal=%d phase=%s subject=%s input=%s\n", sig, cur_phase, vis(cur_subject).c_str(), vis(cur_input).c_str());
    if (write(2, buf, n) < 0) {}
    if (!cfg.out.empty()) { std::ofstream o(cfg.out + ".crash"); o << jw::Obj().i("signal", sig).s("phase", cur_phase).s("subject", cur_subject).s("input_hex", jw::hex(cur_input)).str() << "\n"; }
    _exit(3);
}

static void write_out() {
    if (cfg.out.empty()) return;
    std::vector<std::string> vs;
    for (auto& v : viols) vs.push_back(jw::Obj().s("prop", v.prop).s("kind", v.kind).s("subject", v.subject).s("subject_hex", jw::hex(v.subject)).s("input", vis(v.input)).s("input_hex", jw::hex(v.input)).s("detail", v.detail).s("known", v.known).str());
    jw::Obj samp; for (auto& kv : samples) samp.raw(kv.first, jw::arr(kv.second));
    jw::Obj outc; for (auto& kv : outcomes) { std::vector<std::string> a; for (auto& s : kv.second) a.push_back(jw::esc(s)); outc.raw(kv.first, jw::arr(a)); }
    std::ofstream o(cfg.out);
    o << jw::Obj().raw("counters", jw::counters(ctr)).raw("violation_counts", jw::counters(viol_count)).raw("violations", jw::arr(vs)).raw("samples", samp.str()).raw("outcomes", outc.str()).b("deadline_hit", deadline_hit).raw("elapsed", std::to_string(elapsed())).str() << "\n";
}

int main(int argc, char** argv) {
    t0 = std::chrono::steady_clock::now();
    for (int i = 1; i < argc; ++i) {
        std::string a = argv[i]; auto next = [&]() { return std::string(i + 1 < argc ? argv[++i] : ""); };
        if (a == "--mode") cfg.mode = next(); else if (a == "--out") cfg.out = next();
        else if (a == "--shard") { std::string v = next(); cfg.shard = std::atoi(v.c_str()); cfg.nshards = std::atoi(v.c_str() + v.find('/') + 1); }
        else if (a == "--K") cfg.K = std::atoi(next().c_str()); else if (a == "--maxlen") cfg.maxlen = std::atoi(next().c_str());
        else if (a == "--setsize") cfg.setsize = std::atoi(next().c_str()); else if (a == "--pool") cfg.pool = std::atoi(next().c_str());
        else if (a == "--deadline") cfg.deadline = std::atof(next().c_str()); else if (a == "-v") cfg.verbose = true;
        else if (a == "--one") cfg.one = next(); else if (a == "--input-hex") { std::string h = next(); cfg.input.clear(); for (size_t k = 0; k + 1 < h.size(); k += 2) cfg.input += char(std::stoi(h.substr(k, 2), nullptr, 16)); cfg.has_input = true; }
        else if (a == "--opt") cfg.opt = std::atoi(next().c_str());
        else { std::fprintf(stderr, "unknown argument %s\n", a.c_str()); return 2; }
    }
    std::signal(SIGSEGV, crash_handler); std::signal(SIGABRT, crash_handler); std::signal(SIGBUS, crash_handler);
    if (cfg.mode == "c03") run_c03();
    else if (cfg.mode == "c04") run_c04();
    else if (cfg.mode == "c04w") run_c04_wide();
    else if (cfg.mode == "c10") run_c10();
    else if (cfg.mode == "c17") run_c17();
    else if (cfg.mode == "dump-termsets") { run_dump_termsets(cfg.one); return 0; }
    else if (cfg.mode == "list-patterns") { run_patterns(false); return 0; }
    else if (cfg.mode == "dump-patterns") { run_patterns(true); return 0; }
    else if (cfg.mode == "c03-one") { bool v = run_one(); return v ? 1 : 0; }
    else { std::fprintf(stderr, "need --mode c03|c04|c10|c17\n"); return 2; }
    write_out();
    if (cfg.verbose) for (auto& kv : ctr) std::fprintf(stderr, "  %s = %lld\n", kv.first.c_str(), kv.second);
    return 0;
}
