// minimal JSON writer used by the engines
#pragma once
#include <string>
#include <vector>
#include <cstdio>
#include <map>

namespace jw {
inline std::string esc(const std::string& s) {
    std::string o = "\"";
    for (unsigned char c : s) {
        if (c == '"') o += "\\\""; else if (c == '\\') o += "\\\\"; else if (c == '\n') o += "\\n"; else if (c == '\t') o += "\\t"; else if (c == '\r') o += "\\r";
        else if (c < 0x20 || c >= 0x7f) { char b[8]; std::snprintf(b, sizeof b, "\\u%04x", c); o += b; }
        else o += char(c);
    }
    return o + "\"";
}
inline std::string hex(const std::string& s) { static const char* d = "0123456789abcdef"; std::string o; for (unsigned char c : s) { o += d[c >> 4]; o += d[c & 15]; } return o; }
struct Obj {
    std::string body; bool first = true;
    Obj& raw(const std::string& k, const std::string& v) { if (!first) body += ","; first = false; body += esc(k) + ":" + v; return *this; }
    Obj& s(const std::string& k, const std::string& v) { return raw(k, esc(v)); }
    Obj& i(const std::string& k, long long v) { return raw(k, std::to_string(v)); }
    Obj& b(const std::string& k, bool v) { return raw(k, v ? "true" : "false"); }
    std::string str() const { return "{" + body + "}"; }
};
inline std::string arr(const std::vector<std::string>& v) { std::string o = "["; for (size_t i = 0; i < v.size(); ++i) { if (i) o += ","; o += v[i]; } return o + "]"; }
inline std::string counters(const std::map<std::string, long long>& m) { Obj o; for (auto& kv : m) o.i(kv.first, kv.second); return o.str(); }
}
