// E-SCALE: one compiled DSL grammar per translation unit, at a size the injection frames cannot reach (hundreds of
// terminals / rules / nonterminals / long right sides / extreme precedence values). The generated TU (gen/scale_gen.py)
// defines the ctpg parser AND the same grammar as plain data (dyn::Gram); this header compares them:
//  (1) white box: the real parse table and item sets against the reference canonical LR(1) collection with the documented
//      conflict resolution, by a lock-step walk from state 0 (state numbering is not assumed);
//  (2) black box: the complete write_diag_str text against the text regenerated from the reference (rules, item sets, actions,
//      conflict lines with the rule and the preferred side);
//  (3) black box: every token string up to a length bound over a sample of the terminals (chosen by the generator to include the
//      highest indices), plus listed sentences, through parse(): outcome, sequence of reductions (recorded by the functors) and
//      the complete error stream against the documented driver + recovery on the reference table.
// Compiled with -DCTPG_VERIF -fno-access-control.
#pragma once
#include <ctpg/ctpg.hpp>
#include "../ref/lr1_dyn.hpp"
#include "jsonw.hpp"
#include <sys/resource.h>
#include <cstdio>
#include <cstring>
#include <sstream>
#include <string>
#include <vector>
#include <set>
#include <map>
#include <algorithm>

struct BoundsHit { const char* what; std::size_t idx, size; };
namespace ctpg_verif { void bounds_violation(const char* what, std::size_t idx, std::size_t size) { throw BoundsHit{what, idx, size}; } }

__attribute__((constructor(101))) static void raise_stack_limit() { rlimit rl{}; if (getrlimit(RLIMIT_STACK, &rl) == 0) { rl.rlim_cur = rl.rlim_max; setrlimit(RLIMIT_STACK, &rl); } }

namespace scale {

static std::vector<int> g_trace;
template<int R> struct F { template<class... A> int operator()(A&&...) const { g_trace.push_back(R); return R; } };

struct Viol { std::string prop, kind, detail, input; };
static std::vector<Viol> viols; static std::map<std::string, long long> ctr;
static void add_viol(const std::string& prop, const std::string& kind, const std::string& detail, const std::string& input = "") { ctr["viol|" + prop + "|" + kind]++; if (viols.size() < 40) viols.push_back(Viol{prop, kind, detail, input}); }

static std::string norm_ws(const std::string& s) { std::string o; bool sp = false; for (char c : s) { if (c == ' ') { sp = true; continue; } if (sp && !o.empty()) o += ' '; sp = false; o += c; } return o; }
static std::string vis(const std::string& s) { std::string o; char b[8]; for (unsigned char c : s) { if (c >= 0x20 && c <= 0x7e && c != '\\') o += char(c); else { std::snprintf(b, sizeof b, "\\x%02x", c); o += b; } } return o; }

struct Config {
    std::string family;
    std::string parse_prop = "C01";      // property a wrong parse outcome is reported under (C05 for precedence families, C08 for recovery families)
    std::vector<std::string> term_text;   // text of each user terminal (one-byte char terms, or fixed-width string terms when there are more than 222 terminals)
    std::vector<int> sample;              // terminals used for the exhaustive input enumeration
    int maxlen = 4;
    std::vector<std::vector<int>> sentences;   // extra inputs (token index sequences)
};

struct RealCell { int kind, arg, sr, rule; };   // sr: has_sr_conflict (0/1) or 2 when the tree under test has no such member
template<class E> auto sr_flag_of(const E& e, int) -> decltype(int(e.has_sr_conflict)) { return e.has_sr_conflict ? 1 : 0; }
template<class E> int sr_flag_of(const E&, long) { return 2; }

static int finish(const std::string& family) {
    std::vector<std::string> vs; for (auto& v : viols) vs.push_back(jw::Obj().s("prop", v.prop).s("kind", v.kind).s("detail", v.detail).s("input", v.input).str());
    std::printf("%s\n", jw::Obj().s("family", family).raw("counters", jw::counters(ctr)).raw("violations", jw::arr(vs)).str().c_str());
    return viols.empty() ? 0 : 1;
}

template<class P> static int run(P* (*make)(), dyn::Gram& g, const Config& cfg) {
    using namespace dyn;
    P* p = nullptr; std::string build_err;
    try { p = make(); } catch (const BoundsHit& h) { build_err = std::string("fixed-capacity container overrun in ") + h.what; } catch (const std::exception& e) { build_err = e.what(); }
    Analysis an = analyse(g); LR1 L = build_lr1(g, an, true);
    size_t ref_max_items = 0; for (auto& s : L.st) ref_max_items = std::max(ref_max_items, s.items.size());
    ctr["ref_states"] = (long)L.st.size(); ctr["ref_max_items_per_state"] = (long)ref_max_items; ctr["terminals"] = g.T; ctr["rules"] = g.R; ctr["nonterminals"] = g.NT;
    if (L.overflow) { std::fprintf(stderr, "HARNESS ERROR: reference automaton too large\n"); return 2; }
    if (!p && (P::state_count_cap < L.st.size() || P::max_sit_count_per_state_cap < ref_max_items)) { std::fprintf(stderr, "HARNESS ERROR: family %s needs %zu states / %zu items per state, the generator gave caps %zu / %zu\n", cfg.family.c_str(), L.st.size(), ref_max_items, (size_t)P::state_count_cap, (size_t)P::max_sit_count_per_state_cap); return 2; }
    if (!p) { add_viol("C12", "construction-failed", "the parser could not be constructed with limits that cover the reference automaton (" + std::to_string(L.st.size()) + " states, " + std::to_string(ref_max_items) + " items; caps " + std::to_string(P::state_count_cap) + " / " + std::to_string(P::max_sit_count_per_state_cap) + "): " + build_err); return finish(cfg.family); }
    // ---------------------------------------------------------------- (1) table walk
    const int nstates = p->state_count, ntc = (int)P::nterm_count, tc = (int)P::term_count;
    if (ntc != g.NT + 1 || tc != g.T + 2 || (int)P::rule_count != g.R + 1) { std::fprintf(stderr, "HARNESS ERROR: generated data and DSL grammar differ in size\n"); return 2; }
    auto cell = [&](int s, int col) { const auto& e = p->parse_table[s][col]; return RealCell{int(e.kind), int(e.arg), int(sr_flag_of(e, 0)), (e.arg < P::rule_count) ? int(p->gi.rule_infos[e.arg].r_idx) : -1}; };
    std::vector<std::vector<Item>> ritems(nstates);
    for (int s = 0; s < nstates; ++s) {
        for (ctpg::size32_t i = 0; i < P::situation_address_space_size; ++i) if (p->states[s].test(i)) { auto info = P::make_situation_info(i); ritems[s].push_back(Item{int(p->gi.rule_infos[info.rule_info_idx].r_idx), int(info.after), int(info.t)}); }
        std::sort(ritems[s].begin(), ritems[s].end()); ctr["items"] += (long)ritems[s].size();
    }
    std::vector<int> r2ref(nstates, -1); std::vector<int> queue{0}; r2ref[0] = 0; bool table_ok = true;
    auto link = [&](int from, int to_real, int to_ref, const std::string& on) {
        if (to_real < 0 || to_real >= nstates) { add_viol("C01", "table-target-out-of-range", "state " + std::to_string(from) + " on " + on + " leads to state " + std::to_string(to_real)); table_ok = false; return; }
        if (r2ref[to_real] < 0) { r2ref[to_real] = to_ref; queue.push_back(to_real); }
        else if (r2ref[to_real] != to_ref) { add_viol("C01", "table-not-isomorphic", "state " + std::to_string(from) + " on " + on + " leads to state " + std::to_string(to_real) + ", which stands for a different item set than the canonical collection requires"); table_ok = false; }
    };
    for (size_t qi = 0; qi < queue.size() && viols.size() < 30; ++qi) {
        int s = queue[qi], rs = r2ref[s]; const State& R = L.st[rs];
        if (ritems[s] != R.items) {
            std::string d = "state " + std::to_string(s) + ": item set has " + std::to_string(ritems[s].size()) + " items, the canonical LR(1) state has " + std::to_string(R.items.size());
            for (auto& it : R.items) if (!std::binary_search(ritems[s].begin(), ritems[s].end(), it)) { d += "; missing [rule " + std::to_string(it.r) + ", dot " + std::to_string(it.d) + ", lookahead " + g.tname[it.la] + "]"; break; }
            for (auto& it : ritems[s]) if (!std::binary_search(R.items.begin(), R.items.end(), it)) { d += "; spurious [rule " + std::to_string(it.r) + ", dot " + std::to_string(it.d) + ", lookahead " + vis(g.tname[it.la]) + "]"; break; }
            add_viol("C01", "item-set-differs", d); table_ok = false;
        }
        for (int A = 0; A <= g.NT; ++A) {
            RealCell c = cell(s, A); ctr["cells"]++;
            bool rshift = c.kind == 2 || c.kind == 3;
            if (rshift != (R.go[A] >= 0)) { add_viol("C01", "goto-differs", "state " + std::to_string(s) + " on " + g.ntname[A] + ": table " + (rshift ? "has" : "has no") + " goto, the canonical collection " + (R.go[A] >= 0 ? "has one" : "has none")); table_ok = false; continue; }
            if (rshift) link(s, c.arg, R.go[A], g.ntname[A]);
        }
        for (int t = 0; t < g.nterms(); ++t) {
            RealCell c = cell(s, ntc + t); const Cell& rc = R.cell[t]; ctr["cells"]++;
            std::string where = "state " + std::to_string(s) + " on " + vis(g.tname[t]);
            std::string prop = rc.sr ? "C05" : "C01";
            if (rc.sr) ctr["sr_cells"]++;
            if (rc.acc_conf || rc.rr) { ctr["undefined_cells"]++; if (rc.rr && c.kind != 5) { add_viol("C11", "rr-conflict-not-in-table", where + ": the grammar has a reduce/reduce conflict, the table entry is of kind " + std::to_string(c.kind)); } continue; }
            int want = rc.kind == K_ERROR ? 0 : rc.kind == K_ACCEPT ? 1 : rc.kind == K_SHIFT ? 2 : 4;
            int got = c.kind == 3 ? 2 : c.kind;
            if (want != got) { add_viol(prop, rc.sr ? "sr-resolution-differs" : "action-differs", where + ": table entry kind " + std::to_string(c.kind) + " (0 error 1 success 2/3 shift 4 reduce 5 r/r), documented behaviour is " + (want == 0 ? "error" : want == 1 ? "success" : want == 2 ? "shift" : "reduce(" + std::to_string(rc.arg) + ")")); table_ok = false; continue; }
            if (want == 4 && c.rule != rc.arg) { add_viol(prop, "reduce-rule-differs", where + ": table reduces by rule " + std::to_string(c.rule) + ", the grammar by rule " + std::to_string(rc.arg)); table_ok = false; }
            if (want == 2) link(s, c.arg, rc.shift_to, vis(g.tname[t]));
            if ((want == 2 || want == 4) && c.sr != 2 && (c.sr != 0) != rc.sr) { add_viol("C11", "sr-flag-differs", where + ": conflict flag " + std::to_string(c.sr) + ", the grammar " + (rc.sr ? "has" : "has no") + " shift/reduce conflict there"); }
        }
    }
    ctr["real_states"] = nstates; ctr["states_walked"] = (long)queue.size();
    // ---------------------------------------------------------------- (2) diagnostics text
    {
        std::ostringstream ds; p->write_diag_str(ds); std::string text = ds.str();
        std::vector<std::string> lines; { std::istringstream in(text); std::string l; while (std::getline(in, l)) lines.push_back(l); }
        size_t li = 0; auto find_line = [&](const std::string& s) { while (li < lines.size() && lines[li] != s) ++li; return li < lines.size(); };
        std::string why;
        // header
        for (auto& l : lines) if (l.rfind("Number of states: ", 0) == 0) { long n = std::atol(l.c_str() + 18); if (n != nstates) why = "header says " + std::to_string(n) + " states, table has " + std::to_string(nstates); ctr["diag_header_seen"]++; }
        for (auto& l : lines) if (l.rfind("Max number of situations per state: ", 0) == 0) { long n = std::atol(l.c_str() + 36); size_t mx = 0; for (auto& v : ritems) mx = std::max(mx, v.size()); if (n != (long)mx && why.empty()) why = "header says at most " + std::to_string(n) + " situations per state, the largest item set has " + std::to_string(mx); }
        if (why.empty() && !find_line("RULES")) why = "no RULES section";
        if (why.empty()) {
            ++li; while (li < lines.size() && lines[li].empty()) ++li;
            for (int r = 0; r <= g.R && why.empty(); ++r, ++li) {
                std::string exp = std::to_string(r) + "    " + g.ntname[g.lhs[r]] + " <- ";
                for (size_t j = 0; j < g.rhs[r].size(); ++j) exp += (j ? " " : "") + g.sym_name(g.rhs[r][j]);
                if (li >= lines.size() || norm_ws(lines[li]) != norm_ws(exp)) why = "RULES line " + std::to_string(r) + " is '" + (li < lines.size() ? vis(lines[li]) : std::string("<missing>")) + "', rule " + std::to_string(r) + " is '" + vis(exp) + "'";
                ctr["diag_lines_checked"]++;
            }
        }
        if (why.empty() && !find_line("STATES")) why = "no STATES section";
        for (int s = 0; s < nstates && why.empty(); ++s) {
            if (!find_line("STATE " + std::to_string(s))) { why = "no block for state " + std::to_string(s); break; }
            ++li; std::vector<std::string> got_items, got_acts;
            while (li < lines.size() && !lines[li].empty()) got_items.push_back(norm_ws(lines[li++]));
            ++li; while (li < lines.size() && !lines[li].empty()) got_acts.push_back(norm_ws(lines[li++]));
            std::vector<std::string> exp_items, exp_acts;
            for (const Item& it : ritems[s]) { std::string x = g.ntname[g.lhs[it.r]] + " <- "; for (int j = 0; j < it.d; ++j) x += g.sym_name(g.rhs[it.r][j]) + " "; x += ". "; for (size_t j = it.d; j < g.rhs[it.r].size(); ++j) x += g.sym_name(g.rhs[it.r][j]) + " "; x += "==> " + g.tname[it.la]; exp_items.push_back(norm_ws(x)); }
            std::sort(exp_items.begin(), exp_items.end()); std::sort(got_items.begin(), got_items.end());
            if (exp_items != got_items) { why = "state " + std::to_string(s) + ": the listed items are not the table's item set"; break; }
            int rs = r2ref[s];
            for (int A = 0; A <= g.NT; ++A) { RealCell c = cell(s, A); if (c.kind == 2 || c.kind == 3) exp_acts.push_back("On " + g.ntname[A] + " go to " + std::to_string(c.arg)); }
            for (int t = 0; t < g.nterms(); ++t) {
                RealCell c = cell(s, ntc + t); const Cell* rc = rs >= 0 ? &L.st[rs].cell[t] : nullptr;
                if (c.kind == 0) { if (rc && rc->conflict()) why = "state " + std::to_string(s) + " on " + vis(g.tname[t]) + ": conflict not reported"; continue; }
                std::string l = "On " + g.tname[t];
                // what the line must say is decided by the grammar (reference cell) where the state is reachable, else by the table
                bool sr = rc ? rc->sr : c.sr == 1;
                if (rc && rc->rr) l += " R/R CONFLICT - !!! FIX IT !!!";
                else if (c.kind == 1) l += " success";
                else if (c.kind == 4 && sr) l += " S/R CONFLICT, prefer reduce(" + std::to_string(c.rule) + ") over shift";
                else if ((c.kind == 2 || c.kind == 3) && sr) l += " S/R CONFLICT, prefer shift over reduce(" + (rc ? std::to_string(rc->red[0]) : std::string("?")) + ")";
                else if (c.kind == 2 || c.kind == 3) l += " shift to " + std::to_string(c.arg);
                else if (c.kind == 4) l += " reduce using (" + std::to_string(c.rule) + ")";
                else if (c.kind == 5) l += " R/R CONFLICT - !!! FIX IT !!!";
                exp_acts.push_back(norm_ws(l));
                if (rc && rc->conflict()) ctr["diag_conflict_lines_expected"]++;
            }
            if (!why.empty()) break;
            for (size_t k = 0; k < std::max(exp_acts.size(), got_acts.size()); ++k) {
                std::string x = k < exp_acts.size() ? exp_acts[k] : "<none>", y = k < got_acts.size() ? got_acts[k] : "<none>";
                if (x.find("reduce(?)") != std::string::npos) continue;
                if (x != y) { why = "state " + std::to_string(s) + ": listed action '" + vis(y) + "', the grammar and the table say '" + vis(x) + "'"; break; }
            }
            ctr["diag_lines_checked"] += (long)(exp_items.size() + exp_acts.size());
        }
        if (!why.empty()) add_viol("C11", "diag-text-wrong", why);
        ctr["diag_bytes"] = (long)text.size();
    }
    // ---------------------------------------------------------------- (3) parses
    {
        std::vector<std::vector<int>> inputs{{}};
        for (size_t lo = 0, l = 0; l < (size_t)cfg.maxlen; ++l) { size_t hi = inputs.size(); for (size_t i = lo; i < hi; ++i) for (int t : cfg.sample) { auto v = inputs[i]; v.push_back(t); inputs.push_back(v); } lo = hi; }
        for (auto& s : cfg.sentences) inputs.push_back(s);
        std::set<std::string> outcomes;
        for (auto& toks : inputs) {
            std::string in; std::vector<size_t> offs; for (int t : toks) { offs.push_back(in.size()); in += cfg.term_text[t]; } offs.push_back(in.size());
            Run want = drive(g, L, toks);
            if (want.undefined || want.horizon) { ctr["parses_without_verdict"]++; continue; }
            g_trace.clear(); std::ostringstream es; bool ok = false; std::string thrown;
            try { auto r = p->parse(ctpg::buffers::string_view_buffer(std::string_view(in)), es); ok = r.has_value(); }
            catch (const BoundsHit& h) { thrown = std::string("fixed-capacity container overrun in ") + h.what; } catch (const std::exception& e) { thrown = e.what(); }
            ctr["parses"]++; if (want.ok) ctr["parses_accepted"]++; if (!want.err_tok.empty() && want.ok) ctr["parses_recovered"]++;
            std::string prop = cfg.parse_prop; if (!want.err_tok.empty() && prop == "C01") prop = g.T >= 0 && want.popped_states + want.discarded_terms > 0 ? "C08" : "C01";
            std::ostringstream wantmsg; for (size_t k = 0; k < want.err_tok.size(); ++k) wantmsg << "[1:" << (offs[want.err_tok[k]] + 1) << "] PARSE: Syntax error: Unexpected '" << g.tname[want.err_term[k]] << "'\n";
            std::string detail;
            if (!thrown.empty()) detail = "parse threw: " + thrown;
            else if (ok != want.ok) detail = std::string("parse ") + (ok ? "returned a value" : "returned nothing") + ", the grammar says the input is " + (want.ok ? "a sentence" : "not a sentence") + (want.err_tok.empty() ? "" : " (after recovery)") + "; stream '" + vis(es.str()) + "'";
            else if (g_trace != want.reductions && (want.ok || !want.reductions.empty() || !g_trace.empty())) {
                // on a failed parse the real parser may not have performed the reductions after the failure point; compare only as far as both went when failing
                bool prefix_ok = !want.ok && g_trace.size() <= want.reductions.size() && std::equal(g_trace.begin(), g_trace.end(), want.reductions.begin()) && g_trace.size() == want.reductions.size();
                if (!prefix_ok) { std::string a, b; for (int r : g_trace) a += std::to_string(r) + " "; for (int r : want.reductions) b += std::to_string(r) + " "; detail = "reductions performed [" + a + "], the grammar's derivation gives [" + b + "]"; }
            }
            if (detail.empty() && es.str() != wantmsg.str()) { detail = "error stream '" + vis(es.str()) + "', expected '" + vis(wantmsg.str()) + "'"; prop = "C09"; }
            if (!detail.empty()) add_viol(prop, "parse-differs", detail, vis(in));
            outcomes.insert(std::string(want.ok ? "ok" : "fail") + (want.err_tok.empty() ? "" : "-err" + std::to_string(std::min<size_t>(want.err_tok.size(), 3))));
        }
        ctr["distinct_outcomes"] = (long)outcomes.size();
    }
    (void)table_ok;
    return finish(cfg.family);
}

}  // namespace scale
