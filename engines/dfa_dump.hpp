// canonical text dump of a ctpg::regex::dfa, shared by E-RX and the generated constexpr conformance programs (DESIGN 1.6)
#pragma once
#include <cstdio>
template<class Dfa> static void dump_dfa(const char* pattern, const Dfa& sm, long predicted) {
    std::printf("### %s\nstates %zu predicted %ld\n", pattern, (size_t)sm.size(), predicted);
    for (size_t s = 0; s < sm.size(); ++s) {
        const auto& st = sm[s];
        std::printf("%zu: start=%d end=%d unreachable=%d rec=%d,%d,%d,%d |", s, int(st.start_state), int(st.end_state), int(st.unreachable), int(st.conflicted_recognition[0]), int(st.conflicted_recognition[1]), int(st.conflicted_recognition[2]), int(st.conflicted_recognition[3]));
        int from = -1; unsigned to = 0xffff;
        for (int c = 0; c <= 256; ++c) {
            unsigned t = c < 256 ? st.transitions[c] : 0xfffe;
            if (t != to) { if (from >= 0 && to != 0xffff) std::printf(" %02x-%02x>%u", from, c - 1, to); from = c; to = t; }
        }
        std::printf("\n");
    }
}
