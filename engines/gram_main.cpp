// E-GRAM: bounded exhaustive exploration of grammar space x input space on the real ctpg analyzer and driver.
// See DESIGN.md 1.1 / 1.4. One binary; the properties to decide are selected with --props.
#include "gram_frame.hpp"
#include "jsonw.hpp"
#include <chrono>
#include <csignal>
#include <cstdio>
#include <cstdlib>
#include <cstring>
#include <fstream>
#include <iostream>
#include <map>
#include <set>
#include <unistd.h>
#include <sys/resource.h>
#include <atomic>
#include <thread>

namespace eg {
Obs g_obs;
BufFault g_buf;
LexScript g_script;
long g_bounds_hits = 0;
std::vector<FrameBase*>& registry() { static std::vector<FrameBase*> r; return r; }
std::string& frame_ctor_failure() { static std::string s; return s; }
}
namespace ctpg_verif {
void bounds_violation(const char* what, std::size_t idx, std::size_t cap) { eg::g_bounds_hits++; throw eg::BoundsHit{what, idx, cap}; }
}

// The parser constructor keeps its whole state_analyzer (tens of MB for a JSON-sized grammar) in a local variable; frames are
// constructed on the main thread during static initialisation, so raise the stack limit before any of them runs.
__attribute__((constructor(101))) static void raise_stack_limit() { struct rlimit rl; if (getrlimit(RLIMIT_STACK, &rl) == 0) { rlim_t want = rlim_t(2048) << 20; if (rl.rlim_max != RLIM_INFINITY && want > rl.rlim_max) want = rl.rlim_max; if (rl.rlim_cur == RLIM_INFINITY || rl.rlim_cur >= want) return; rl.rlim_cur = want; setrlimit(RLIMIT_STACK, &rl); } }

using namespace eg;
using ref::Gram;

// ------------------------------------------------------------------------------------------------ config / state
struct Config {
    std::set<std::string> props;
    int shard = 0, nshards = 1;
    int maxlen = 4, deeplen = 7;
    std::string out;
    int nt = -1, t = -1, minR = 0, maxR = 99, maxW = 99, maxL = 99, minW = 0;
    int err = 0;                 // 0: frames without error positions, 1: frames with, 2: both
    int custom = 0;              // 1: frames with the scripted custom lexer
    long stride_count = 0;       // > 0: explore only this many grammars per frame, evenly spread (with a deterministic jitter) over the frame's whole enumeration order
    int long_words = 0;          // > 0: every grammar also gets the inputs a^K b, a^K and b a^K b for all terminals a, b (long discard runs, long traces)
    int off = -1, noff = -1;     // lifted frames: select by number of filler terminals / nonterminals (-1: any)
    double deadline = 1e18;
    std::string one_spec, one_prec, one_rprec, one_input; bool one = false, has_input = false;
    std::string seeds, dump;
    int prec_levels = 3;         // term precedence values prec_base..prec_base+prec_levels-1
    int prec_base = 0;
    int rprec_max = 0;           // explicit rule precedence values 1..rprec_max on at most rprec_rules rules
    int rprec_rules = 1;
    int sentences = 0;           // with a seed: also use every sentence of the seed grammar up to this many tokens (and its one-token deletions) as inputs
    bool neighbours = false;     // explore, with every seed grammar, all grammars that differ from it in exactly one symbol
    bool rich = false;           // additionally explore inputs over the terminals plus space, newline and a foreign byte (C01/C09)
    bool with_prec = false;      // enumerate precedence/associativity assignments for S/R grammars (always on for C05)
    bool verbose = false;
    long max_grammars_per_frame = -1;
    bool has(const char* p) const { return props.count(p) != 0; }
} cfg;

struct Viol { std::string prop, kind, frame, gram, prec, input, detail, known; int nt, t; std::string spec, pspec, rspec; };
static std::map<std::string, long long> ctr;         // counters
static std::map<std::string, long long> viol_count;  // prop|kind|known -> n
static std::vector<Viol> viols;
static std::map<std::string, int> viol_kept;
static std::map<std::string, std::vector<std::string>> samples;   // prop -> json objects
static std::map<std::string, std::set<std::string>> outcomes;     // prop -> distinct outcome classes
static std::chrono::steady_clock::time_point t0;
static bool deadline_hit = false;

// current case, for the crash handler
static const FrameBase* cur_frame = nullptr; static Gram cur_gram; static std::string cur_input; static const char* cur_phase = "";

static std::atomic<unsigned long> g_heartbeat{0};
static std::vector<std::string> g_extra_words;   // sentences of the current seed grammar used as additional inputs
static double elapsed() { return std::chrono::duration<double>(std::chrono::steady_clock::now() - t0).count(); }

static std::string spec_of(const Gram& g);
static std::string prec_spec(const Gram& g);
static std::string rprec_spec(const Gram& g);
static void add_viol(const char* prop, const std::string& kind, const FrameBase& f, const Gram& g, const std::string& input, const std::string& detail, const std::string& known = "") {
    std::string k = std::string(prop) + "|" + kind + "|" + known;
    viol_count[k]++;
    if (viol_kept[k] < 6) {
        viol_kept[k]++;
        viols.push_back(Viol{prop, kind, f.name, g.text(), g.prec_text(), input, detail, known, g.NT, g.T, spec_of(g), prec_spec(g), rprec_spec(g)});
    }
    if (cfg.verbose || cfg.one) std::fprintf(stderr, "VIOL %s %s%s%s | %s | %s | in=%s | %s\n", prop, kind.c_str(), known.empty() ? "" : " known=", known.c_str(), g.text().c_str(), g.prec_text().c_str(), input.c_str(), detail.c_str());
}
static void add_sample(const char* prop, const std::string& json, size_t cap = 4) { auto& v = samples[prop]; if (v.size() < cap) v.push_back(json); }

static std::string spec_of(const Gram& g) {
    std::string o;
    for (int i = 0; i < g.R; ++i) {
        if (i) o += ";";
        o += char('0' + g.lhs[i]); o += "=";
        for (int j = 0; j < g.n[i]; ++j) { int s = g.rhs[i][j]; if (!Gram::is_term(s)) o += char('0' + s); else if (Gram::term_of(s) == g.err()) o += 'E'; else o += char('a' + Gram::term_of(s)); }
    }
    return o;
}
static std::string prec_spec(const Gram& g) { std::string o; for (int t = 0; t < g.T; ++t) { if (t) o += ","; o += std::to_string(g.tprec[t]); o += (g.tassoc[t] == ref::LTOR ? "L" : g.tassoc[t] == ref::RTOL ? "R" : "N"); } return o; }
static std::string rprec_spec(const Gram& g) { std::string o; for (int i = 0; i < g.R; ++i) { if (i) o += ","; o += std::to_string(g.rprec[i]); } return o; }

static bool parse_spec(const std::string& spec, int NT, int T, Gram& g) {
    g = Gram{}; g.NT = NT; g.T = T;
    size_t i = 0; int r = 0;
    while (i <= spec.size()) {
        if (r >= ref::MAXR) return false;
        if (i >= spec.size()) break;
        g.lhs[r] = spec[i] - '0'; ++i; if (i >= spec.size() || spec[i] != '=') return false; ++i;
        int n = 0;
        while (i < spec.size() && spec[i] != ';') {
            char c = spec[i++];
            if (n >= ref::MAXL) return false;
            if (c >= '0' && c <= '9') g.rhs[r][n++] = c - '0';
            else if (c == 'E') g.rhs[r][n++] = ref::TERM + T + 1;
            else g.rhs[r][n++] = ref::TERM + (c - 'a');
        }
        g.n[r] = n; ++r;
        if (i < spec.size()) ++i; else break;
    }
    g.R = r; g.finish();
    return true;
}
static void parse_prec(const std::string& p, const std::string& rp, Gram& g) {
    size_t i = 0; int t = 0;
    while (i < p.size() && t < g.T) {
        int sign = 1; if (p[i] == '-') { sign = -1; ++i; }
        int v = 0; while (i < p.size() && isdigit((unsigned char)p[i])) v = v * 10 + (p[i++] - '0');
        g.tprec[t] = sign * v;
        if (i < p.size()) { g.tassoc[t] = p[i] == 'L' ? ref::LTOR : p[i] == 'R' ? ref::RTOL : ref::NONE; ++i; }
        if (i < p.size() && p[i] == ',') ++i;
        ++t;
    }
    i = 0; int r = 0;
    while (i < rp.size() && r < g.R) {
        int sign = 1; if (rp[i] == '-') { sign = -1; ++i; }
        int v = 0; while (i < rp.size() && isdigit((unsigned char)rp[i])) v = v * 10 + (rp[i++] - '0');
        g.rprec[r++] = sign * v; if (i < rp.size() && rp[i] == ',') ++i;
    }
}

// ------------------------------------------------------------------------------------------------ names as ctpg prints them
static std::string nt_name(const Gram& g, int A) { return A == g.NT ? "##" : std::string("N") + char('0' + A); }
static std::string term_name(const Gram& g, int t) { if (t == g.eof()) return "<eof>"; if (t == g.err()) return "<error_recovery_token>"; return std::string(1, char('a' + t)); }
static std::string sym_name(const Gram& g, int s) { return Gram::is_term(s) ? term_name(g, Gram::term_of(s)) : nt_name(g, s); }

// ------------------------------------------------------------------------------------------------ table comparison (DESIGN 1.4)
struct TblCmp {
    bool equal = true;
    bool items_diff = false, action_diff = false, srflag_diff = false, resolution_diff = false, extra_states = false, target_diff = false;
    std::string first;
    std::vector<int> ref2c, c2ref;
    long cells = 0;
    void note(const std::string& s) { if (equal) first = s; equal = false; }
};
static const char* kind_name_c(int k) { static const char* n[] = {"error", "success", "shift", "shift_error", "reduce", "rr_conflict"}; return k >= 0 && k < 6 ? n[k] : "?"; }
static const char* kind_name_r(int k) { static const char* n[] = {"error", "shift", "reduce", "accept", "rr"}; return n[k]; }

static TblCmp compare_tables(const Gram& g, const ref::LR1& L, const TableDump& d) {
    TblCmp c;
    c.ref2c.assign(L.st.size(), -1); c.c2ref.assign(d.nstates, -1);
    if (d.nstates == 0) { c.note("no states"); return c; }
    if (d.spurious) { c.action_diff = true; c.note(d.spurious_what + (d.spurious > 1 ? " (and " + std::to_string(d.spurious - 1) + " more such entries)" : "")); }
    std::vector<int> q{0}; c.ref2c[0] = 0; c.c2ref[0] = 0;
    auto link = [&](int rs_to, int cs_to, const std::string& where) {
        if (cs_to < 0 || cs_to >= d.nstates) { c.target_diff = true; c.note(where + ": target state " + std::to_string(cs_to) + " out of range"); return; }
        if (c.ref2c[rs_to] == -1 && c.c2ref[cs_to] == -1) { c.ref2c[rs_to] = cs_to; c.c2ref[cs_to] = rs_to; q.push_back(rs_to); }
        else if (c.ref2c[rs_to] != cs_to) { c.target_diff = true; c.note(where + ": target state differs (states not isomorphic)"); }
    };
    for (size_t qi = 0; qi < q.size(); ++qi) {
        int rs = q[qi], cs = c.ref2c[rs];
        const ref::RState& R = L.st[rs];
        if (d.items[cs] != R.items) { c.items_diff = true; c.note("state " + std::to_string(cs) + ": item set differs from canonical LR(1) (ctpg " + std::to_string(d.items[cs].count()) + " items, reference " + std::to_string(R.items.count()) + ")"); }
        for (int A = 0; A <= g.NT; ++A) {
            const CellDump& e = d.at(cs, A); c.cells++;
            bool cshift = e.kind == 2 || e.kind == 3;
            if ((R.go[A] >= 0) != cshift) { c.action_diff = true; c.note("state " + std::to_string(cs) + " goto on " + nt_name(g, A) + (cshift ? ": ctpg has one, reference none" : ": missing")); continue; }
            if (cshift) link(R.go[A], e.arg, "state " + std::to_string(cs) + " goto on " + nt_name(g, A));
        }
        for (int t = 0; t < g.nterms(); ++t) {
            const CellDump& e = d.at(cs, g.NT + 1 + t); c.cells++;
            const ref::Cell& rc = R.cell[t];
            std::string where = "state " + std::to_string(cs) + " on " + term_name(g, t);
            if (rc.rr || rc.acc_conf) continue;   // behaviour undefined by the documentation: only the diagnostics are judged
            bool ok = true;
            switch (rc.kind) {
                case ref::K_ERROR: ok = e.kind == 0; break;
                case ref::K_SHIFT: ok = (t == g.err() ? e.kind == 3 : e.kind == 2); break;
                case ref::K_REDUCE: ok = e.kind == 4 && e.rule == rc.arg; break;
                case ref::K_ACCEPT: ok = e.kind == 1; break;
                default: break;
            }
            if (!ok) {
                if (rc.sr && (e.kind == 2 || e.kind == 3 || e.kind == 4)) c.resolution_diff = true; else c.action_diff = true;
                c.note(where + ": ctpg " + kind_name_c(e.kind) + (e.kind == 4 ? "(" + std::to_string(e.rule) + ")" : "") + ", reference " + kind_name_r(rc.kind) + (rc.kind == ref::K_REDUCE ? "(" + std::to_string(rc.arg) + ")" : ""));
            } else if (rc.kind == ref::K_SHIFT) link(rc.shift_to, e.arg, where);
            if (e.sr != 2 && bool(e.sr) != rc.sr) { c.srflag_diff = true; c.note(where + ": has_sr_conflict=" + std::to_string(e.sr) + ", reference " + (rc.sr ? "conflict" : "no conflict")); }
        }
    }
    if (!L.any_rr && !L.any_acc) {
        for (int s = 0; s < d.nstates; ++s) if (c.c2ref[s] < 0) { c.extra_states = true; c.note("ctpg state " + std::to_string(s) + " has no counterpart in the reference automaton"); break; }
        for (size_t s = 0; s < L.st.size(); ++s) if (c.ref2c[s] < 0 && c.equal) { c.extra_states = true; c.note("reference state without ctpg counterpart"); }
    }
    return c;
}

// ------------------------------------------------------------------------------------------------ diagnostics text (C11)
struct DiagState { std::vector<std::string> sits, acts; };
struct Diag { bool ok = false; std::string why; long nstates_hdr = -1; std::vector<std::string> rules; std::vector<DiagState> st; };

static std::string norm_ws(const std::string& s) { std::string o; bool sp = false; for (char c : s) { if (c == ' ' || c == '\t') { sp = true; continue; } if (sp && !o.empty()) o += ' '; sp = false; o += c; } return o; }
static Diag split_diag(const std::string& text) {
    Diag D;
    std::vector<std::string> ln; { size_t p = 0; while (p <= text.size()) { size_t e = text.find('\n', p); if (e == std::string::npos) { ln.push_back(text.substr(p)); break; } ln.push_back(text.substr(p, e - p)); p = e + 1; } }
    size_t i = 0;
    auto fail = [&](const std::string& w) { D.why = w + " (line " + std::to_string(i) + ")"; return D; };
    if (ln.size() < 8 || ln[0] != "PARSER") return fail("no PARSER header");
    for (; i < ln.size(); ++i) { if (ln[i].rfind("Number of states: ", 0) == 0) D.nstates_hdr = std::atol(ln[i].c_str() + 18); if (ln[i] == "RULES") break; }
    if (i >= ln.size()) return fail("no RULES");
    i += 2;
    for (; i < ln.size() && !ln[i].empty(); ++i) D.rules.push_back(ln[i]);
    while (i < ln.size() && ln[i] != "STATES") ++i;
    if (i >= ln.size()) return fail("no STATES");
    i += 2;
    while (i < ln.size() && ln[i].rfind("STATE ", 0) == 0) {
        if (std::atol(ln[i].c_str() + 6) != (long)D.st.size()) return fail("state numbering");
        ++i; DiagState s;
        for (; i < ln.size() && !ln[i].empty(); ++i) s.sits.push_back(ln[i]);
        ++i;
        for (; i < ln.size() && !ln[i].empty(); ++i) s.acts.push_back(ln[i]);
        ++i;
        D.st.push_back(s);
    }
    D.ok = true;
    return D;
}

static std::string rule_text(const Gram& g, int r) {   // as write_rule_diag_str prints it
    std::string o = nt_name(g, g.lhs[r]) + " <- ";
    for (int j = 0; j < g.n[r]; ++j) { if (j) o += " "; o += sym_name(g, g.rhs[r][j]); }
    return o;
}
static std::string item_text(const Gram& g, int r, int dot, int la) {
    std::string o = nt_name(g, g.lhs[r]) + " <- ";
    for (int j = 0; j < dot; ++j) o += sym_name(g, g.rhs[r][j]) + " ";
    o += ". ";
    for (int j = dot; j < g.n[r]; ++j) o += sym_name(g, g.rhs[r][j]) + " ";
    return o + "==> " + term_name(g, la);
}

// returns "" when the text describes the dumped table exactly and its conflict lines are the reference's; else what differs.
// missed_acc: set when the only thing wrong is an unreported accept/reduce conflict on <eof> (known finding, keyed by condition)
static std::string check_diag(const Gram& g, const ref::LR1& L, const TableDump& d, const TblCmp& tc, const std::string& text, int max_arity, bool& missed_acc, bool& any_conflict_line, std::string& conflict_detail) {
    missed_acc = false; any_conflict_line = text.find("CONFLICT") != std::string::npos;
    Diag D = split_diag(text);
    if (!D.ok) return "unparsable diagnostic: " + D.why;
    if (D.nstates_hdr != d.nstates) return "header says " + std::to_string(D.nstates_hdr) + " states, table has " + std::to_string(d.nstates);
    if ((int)D.st.size() != d.nstates) return "lists " + std::to_string(D.st.size()) + " states, table has " + std::to_string(d.nstates);
    if ((int)D.rules.size() != g.R + 1) return "lists " + std::to_string(D.rules.size()) + " rules";
    for (int r = 0; r <= g.R; ++r) {
        std::string exp = std::to_string(r) + "    " + nt_name(g, g.lhs[r]) + " <- ";
        if (g.n[r] > 0) exp += sym_name(g, g.rhs[r][0]);
        if (max_arity > 1) for (int j = 1; j < g.n[r]; ++j) exp += " " + sym_name(g, g.rhs[r][j]);
        if (norm_ws(D.rules[r]) != norm_ws(exp)) return "RULES line " + std::to_string(r) + " is '" + D.rules[r] + "' but rule " + std::to_string(r) + " (the number used by reduce actions) is '" + exp + "'";
    }
    std::string conflict_problem;
    for (int s = 0; s < d.nstates; ++s) {
        std::vector<std::string> exp;
        for (int c = 0; c < ref::ITEM_SPACE; ++c) if (d.items[s].test(c)) { int r, dot, la; ref::item_decode(c, r, dot, la); exp.push_back(item_text(g, r, dot, la)); }
        std::vector<std::string> got = D.st[s].sits;
        for (auto& x : exp) x = norm_ws(x); for (auto& x : got) x = norm_ws(x);
        std::sort(exp.begin(), exp.end()); std::sort(got.begin(), got.end());
        if (exp != got) return "state " + std::to_string(s) + ": listed items are not the table's item set";
        int rs = s < (int)tc.c2ref.size() ? tc.c2ref[s] : -1;
        std::vector<std::string> ea;
        for (int A = 0; A <= g.NT; ++A) { const CellDump& e = d.at(s, A); if (e.kind == 2 || e.kind == 3) ea.push_back("On " + nt_name(g, A) + " go to " + std::to_string(e.arg)); }
        for (int t = 0; t < g.nterms(); ++t) {
            const CellDump& e = d.at(s, g.NT + 1 + t);
            const ref::Cell* rc = rs >= 0 ? &L.st[rs].cell[t] : nullptr;
            if (e.kind == 0) {
                if (rc && rc->conflict() && conflict_problem.empty()) conflict_problem = "state " + std::to_string(s) + " on " + term_name(g, t) + ": conflict not reported";
                continue;
            }
            std::string l = "On " + term_name(g, t);
            bool conflict_line = false;
            const bool esr = e.sr == 2 ? (rc && rc->sr) : bool(e.sr);
            if (e.kind == 1) l += " success ";
            else if (e.kind == 4 && esr) { l += " S/R CONFLICT, prefer reduce(" + std::to_string(e.rule) + ") over shift"; conflict_line = true; }
            else if ((e.kind == 2 || e.kind == 3) && esr) {
                // the rule named must be the one whose completed item conflicts with the shift (taken from the reference)
                int named = (rc && rc->nred >= 1) ? rc->red[0] : -2;
                l += " S/R CONFLICT, prefer shift over reduce(" + (named == -2 ? std::string("?") : std::to_string(named)) + ")"; conflict_line = true;
                if (named == -2) { ea.push_back(D.st[s].acts.size() > ea.size() ? D.st[s].acts[ea.size()] : l); goto conflict_check; }
            }
            else if (e.kind == 2 || e.kind == 3) l += " shift to " + std::to_string(e.arg);
            else if (e.kind == 4) l += " reduce using (" + std::to_string(e.rule) + ")";
            else if (e.kind == 5) { l += " R/R CONFLICT - !!! FIX IT !!! "; conflict_line = true; }
            ea.push_back(l);
        conflict_check:
            if (rc) {
                if (conflict_line && !rc->conflict() && conflict_problem.empty()) conflict_problem = "state " + std::to_string(s) + " on " + term_name(g, t) + ": conflict reported but the grammar has none there";
                if (!conflict_line && rc->conflict()) {
                    if (rc->acc_conf && !rc->rr) missed_acc = true;
                    else if (conflict_problem.empty()) conflict_problem = "state " + std::to_string(s) + " on " + term_name(g, t) + ": conflict not reported";
                }
                if (conflict_line && rc->conflict() && conflict_problem.empty()) {
                    // kind of line: R/R line needs >= 2 reductions; S/R line needs a shift and a reduction. A cell with both kinds may show either.
                    bool is_rr_line = e.kind == 5;
                    if (is_rr_line && !(rc->nred >= 2 || (rc->accept && rc->nred >= 1))) conflict_problem = "state " + std::to_string(s) + " on " + term_name(g, t) + ": R/R line but fewer than two reductions there";
                    if (!is_rr_line && !(rc->shift && rc->nred >= 1)) conflict_problem = "state " + std::to_string(s) + " on " + term_name(g, t) + ": S/R line but no shift/reduce pair there";
                    // one line per cell: an unresolvable reduce/reduce conflict must not hide behind a "resolved" S/R line
                    if (!is_rr_line && rc->nred >= 2 && conflict_problem.empty()) conflict_problem = "state " + std::to_string(s) + " on " + term_name(g, t) + ": reduce/reduce conflict (" + std::to_string(rc->nred) + " reductions) not reported, only an S/R line";
                }
            }
        }
        { std::vector<std::string> na, nb; for (auto& x : ea) na.push_back(norm_ws(x)); for (auto& x : D.st[s].acts) nb.push_back(norm_ws(x)); if (na == nb) continue; }
        {
            std::string a, b;
            for (size_t k = 0; k < std::max(ea.size(), D.st[s].acts.size()); ++k) {
                std::string x = k < ea.size() ? ea[k] : "<none>", y = k < D.st[s].acts.size() ? D.st[s].acts[k] : "<none>";
                if (x != y) { a = x; b = y; break; }
            }
            return "state " + std::to_string(s) + ": listed action '" + b + "' but the table/reference says '" + a + "'";
        }
    }
    conflict_detail = conflict_problem;
    return "";
}

// ------------------------------------------------------------------------------------------------ real-run helpers
static std::string show_real(int id) {
    if (id < 0) return "E";
    if (id >= (int)g_obs.log.size()) return "?";
    const LogEntry& e = g_obs.log[id];
    if (e.kind == 0) return "t" + std::to_string(e.a) + "@" + std::to_string(e.off) + "+" + std::to_string(e.len);
    std::string o = "r" + std::to_string(e.a) + "(";
    for (int k = 0; k < e.nk; ++k) { if (k) o += ","; o += show_real(e.kid[k]); }
    return o + ")";
}
static int count_nodes_real(int id) { if (id < 0 || id >= (int)g_obs.log.size()) return 0; const LogEntry& e = g_obs.log[id]; int n = 1; if (e.kind == 1) for (int k = 0; k < e.nk; ++k) n += count_nodes_real(e.kid[k]); return n; }
static std::string log_sig() {   // order-sensitive signature of every functor call
    std::string o;
    for (const auto& e : g_obs.log) { o += e.kind ? 'r' : 't'; o += std::to_string(e.a); if (e.kind) { o += '('; for (int k = 0; k < e.nk; ++k) { o += std::to_string(e.kid[k]); o += ','; } o += ')'; } else { o += '@'; o += std::to_string(e.off); } o += ' '; }
    return o;
}
static std::vector<ref::Tok> tokens_of(const std::string& s) { std::vector<ref::Tok> v; for (size_t i = 0; i < s.size(); ++i) v.push_back(ref::Tok{s[i] - 'a', (int)i, 1}); return v; }

static std::string expected_errors(const Gram& g, const ref::Run& ex) {
    std::string o;
    for (size_t k = 0; k < ex.err_tok.size(); ++k)
        o += "[1:" + std::to_string(ex.err_tok[k] + 1) + "] PARSE: Syntax error: Unexpected '" + term_name(g, ex.err_term[k]) + "'\n";
    return o;
}

struct DumpTable {   // the dumped real table seen through the driver's table concept (used by C16's trace walk)
    const Gram& g; const TableDump& d;
    const CellDump& cell(int s, int t) const { return d.at(s, g.NT + 1 + t); }
};

// ------------------------------------------------------------------------------------------------ C16: verbose trace walk
// Replays the verbose text against the dumped table and the functor log. Returns "" if the trace is a truthful,
// complete account of a run of that table on this input that made exactly the logged functor calls.
static std::string cname(unsigned char c) { if (c > 32 && c < 127) return std::string(1, char(c)); char b[8]; std::snprintf(b, sizeof b, "\\x%02X", c); return b; }
static std::string walk_trace(const Gram& g, const TableDump& d, const std::string& input, const std::string& text, bool result_ok, std::string* filtered) {
    std::vector<std::string> ln; { size_t p = 0; while (p < text.size()) { size_t e = text.find('\n', p); if (e == std::string::npos) return "trace does not end with a newline";
        { std::string one = text.substr(p, e - p); while (!one.empty() && one.back() == ' ') one.pop_back(); ln.push_back(one); } p = e + 1; } }   // trailing blanks are not significant
    std::vector<int> st{0}; size_t off = 0; int cur = -1; bool recovery = false, consume = false; size_t logi = 0; bool done = false; bool success = false;
    auto linecol = [&](size_t o) { int l = 1, c = 1; for (size_t k = 0; k < o && k < input.size(); ++k) { if (input[k] == '\n') { ++l; c = 1; } else ++c; } return std::make_pair(l, c); };
    auto pfx = [&](size_t o) { auto lc = linecol(o); return "[" + std::to_string(lc.first) + ":" + std::to_string(lc.second) + "]"; };
    auto skipws = [&]() { while (off < input.size() && (input[off] == ' ' || input[off] == '\n')) ++off; };
    std::vector<std::string> pending_regex;
    // what dfa_match must print when it is started at `from` (DESIGN C16: the REGEX MATCH lines are a walk of the dumped lexer table)
    auto lexer_lines = [&](size_t from) { std::vector<std::string> out; if (!d.nlex) return out; int s = 0; size_t p = from; auto lc = linecol(from); int L = lc.first, C = lc.second;
        while (true) { std::string sp = "[" + std::to_string(L) + ":" + std::to_string(C) + "]"; uint16_t rec = d.lex_rec[s]; if (rec != 0xffff) out.push_back(sp + " REGEX MATCH: Recognized " + std::to_string(rec));
            if (p >= input.size()) break; uint16_t tr = d.lex_trans[(size_t)s * 256 + (unsigned char)input[p]]; if (tr == 0xffff) break; s = tr;
            out.push_back(sp + " REGEX MATCH: Current char " + cname((unsigned char)input[p])); out.push_back(sp + " REGEX MATCH: New state " + std::to_string(s));
            if (input[p] == '\n') { ++L; C = 1; } else ++C; ++p; }
        return out; };
    for (size_t li = 0; li < ln.size(); ++li) {
        const std::string& l = ln[li];
        auto bad = [&](const std::string& w) { return "line " + std::to_string(li) + " '" + l + "': " + w; };
        if (done) return bad("output after the parse ended");
        size_t sp = l.find(' ');
        if (sp == std::string::npos) return bad("unrecognised line");
        std::string head = l.substr(0, sp), rest = l.substr(sp + 1);
        if (rest.rfind("REGEX MATCH: ", 0) == 0) { pending_regex.push_back(l); continue; }
        if (rest.rfind("PARSE: ", 0) != 0) return bad("unrecognised line");
        rest = rest.substr(7);
        const bool lexing_line = rest.rfind("Recognized ", 0) == 0 || rest.rfind("Unexpected character: ", 0) == 0;
        if (lexing_line) skipws();
        if (!lexing_line && !pending_regex.empty()) return bad("lexer trace lines not followed by a recognised term or a lexical error");
        if (head != pfx(off)) return bad("position prefix should be " + pfx(off));
        int look = recovery ? g.err() : cur;
        auto cell = [&]() -> const CellDump& { return d.at(st.back(), g.NT + 1 + look); };
        if (rest.rfind("Recognized ", 0) == 0) {
            std::string nm = rest.substr(11); if (nm.empty()) return bad("format");
            int t = off < input.size() ? (input[off] >= 'a' && input[off] < 'a' + g.T ? input[off] - 'a' : -9) : g.eof();
            if (t == -9 || nm != term_name(g, t)) return bad("recognised term is not the term at the current position");
            if (d.nlex) { std::vector<std::string> want = t == g.eof() ? std::vector<std::string>{} : lexer_lines(off); if (pending_regex != want) return bad("the REGEX MATCH lines before it are not a walk of the lexer table from this position (" + std::to_string(pending_regex.size()) + " lines, expected " + std::to_string(want.size()) + ")"); }
            pending_regex.clear();
            cur = t;
        } else if (rest.rfind("Unexpected character: ", 0) == 0) {
            if (off >= input.size() || rest != "Unexpected character: " + std::string(1, input[off])) return bad("wrong byte or position");
            if (input[off] >= 'a' && input[off] < 'a' + g.T) return bad("a term matches here");
            if (d.nlex && pending_regex != lexer_lines(off)) return bad("the REGEX MATCH lines before it are not a walk of the lexer table");
            pending_regex.clear();
            if (filtered) *filtered += l + "\n";
            done = true;
        } else if (rest.rfind("Shift to ", 0) == 0) {
            long n = std::atol(rest.c_str() + 9); size_t tp = rest.find(", term: "); if (tp == std::string::npos) return bad("format");
            std::string sv = rest.substr(tp + 8);
            if (look < 0) return bad("shift before any term was recognised");
            const CellDump& c = cell();
            if (recovery) {
                if (c.kind != 3 || c.arg != n || sv != "<error_recovery_token>") return bad("table has no such error shift");
                st.push_back((int)n);
                if (li + 2 >= ln.size() || ln[li + 1] != pfx(off) + " PARSE: Leaving recovery mode" || ln[li + 2] != pfx(off) + " PARSE: Entering consume mode") return bad("error shift not followed by mode changes");
                recovery = false; consume = true;
            } else {
                if (c.kind != 2 || c.arg != n) return bad("table does not shift to that state here");
                if (off >= input.size() || sv != std::string(1, input[off])) return bad("lexeme is not the input slice");
                if (logi >= g_obs.log.size() || g_obs.log[logi].kind != 0 || g_obs.log[logi].a != cur || g_obs.log[logi].off != (int)off) return bad("no matching term functor call");
                ++logi; st.push_back((int)n); ++off; cur = -1;
            }
        } else if (rest.rfind("Reduced using rule ", 0) == 0) {
            long r = std::atol(rest.c_str() + 19);
            if (look < 0) return bad("reduce before any term was recognised");
            const CellDump& c = cell();
            if (!((c.kind == 4 || c.kind == 5) && c.rule == r)) return bad("table does not reduce by that rule here");
            if (r < 0 || r >= g.R) return bad("rule number out of range");
            std::string exp = "Reduced using rule " + std::to_string(r) + "  " + rule_text(g, (int)r);
            while (!exp.empty() && exp.back() == ' ') exp.pop_back();
            if (rest != exp) return bad("rule text should be '" + exp + "'");
            if ((int)st.size() <= g.n[r]) return bad("stack too short");
            st.resize(st.size() - g.n[r]);
            if (li + 1 >= ln.size()) return bad("no Go to line");
            const std::string& gl = ln[++li];
            const CellDump& gc = d.at(st.back(), g.lhs[r]);
            std::string gexp = pfx(off) + " PARSE: Go to " + std::to_string(gc.arg);
            if (gl != gexp || !(gc.kind == 2)) return "line " + std::to_string(li) + " '" + gl + "': goto should be '" + gexp + "'";
            st.push_back(gc.arg);
            if (logi >= g_obs.log.size() || g_obs.log[logi].kind != 1 || g_obs.log[logi].a != r) return bad("no matching rule functor call");
            ++logi;
        } else if (rest == "Success") {
            if (look < 0 || cell().kind != 1) return bad("table does not accept here");
            done = true; success = true;
        } else if (rest.rfind("Syntax error: Unexpected '", 0) == 0) {
            if (look < 0 || recovery || consume || cell().kind != 0) return bad("no error in the table here");
            if (rest != "Syntax error: Unexpected '" + term_name(g, cur) + "'") return bad("wrong term named");
            if (filtered) *filtered += l + "\n";
            if (li + 1 >= ln.size() || ln[li + 1] != pfx(off) + " PARSE: Entering recovery mode") return bad("not followed by 'Entering recovery mode'");
            ++li; recovery = true;
        } else if (rest.rfind("Recovering to state ", 0) == 0) {
            if (!recovery) return bad("pop outside recovery mode");
            st.pop_back();
            if (st.empty() || st.back() != std::atol(rest.c_str() + 20)) return bad("wrong state after pop");
        } else if (rest == "Could not recover from error") {
            if (!recovery || st.size() != 1) return bad("gave up although states remain on the stack");
            st.pop_back(); done = true;
        } else if (rest == "Leaving recovery mode" || rest == "Entering consume mode") {
            // checked together with the error shift
        } else if (rest == "Leaving consume mode") {
            if (!consume || look < 0 || cell().kind == 0) return bad("left consume mode on a term without action");
            consume = false;
        } else if (rest.rfind("Recovery, consuming term ", 0) == 0) {
            if (!consume || look < 0 || cell().kind != 0 || cur == g.eof()) return bad("discarded a term that has an action");
            if (rest != "Recovery, consuming term " + term_name(g, cur)) return bad("wrong term named");
            ++off; cur = -1;
        } else return bad("unrecognised PARSE line");
    }
    if (!pending_regex.empty()) return "lexer trace lines at the end of the trace";
    if (success != result_ok) return "trace ends with" + std::string(success ? "" : "out") + " Success but the call returned " + (result_ok ? "a value" : "nothing");
    if (!done) {
        // legitimate silent ending: end of input while discarding
        if (!(consume && cur == g.eof())) return "trace stops without Success or a failure";
    }
    if (logi != g_obs.log.size()) return "functor calls not accounted for by the trace";
    return "";
}

// ------------------------------------------------------------------------------------------------ the per-grammar pipeline
struct Ctx { ref::StrSpace sp, deep; ref::Lang lang; TableDump dump; };
static std::map<int, Ctx> ctxs;   // by T

static Ctx& ctx_for(int T);
static const TableDump& cx_dump_for_rich(const Gram& g) { return ctx_for(g.T).dump; }
static Ctx& ctx_for(int T) {
    auto it = ctxs.find(T);
    if (it == ctxs.end()) {
        Ctx& c = ctxs[T];
        // Lang needs the count^2 concatenation table: keep the main space below ~1500 strings (T=4: length <= 4 ... the length bound is lowered, never the alphabet)
        int n = cfg.maxlen; auto count_for = [&](int len) { long cnt = 0, pw = 1; for (int l = 0; l <= len; ++l) { cnt += pw; pw *= T; } return cnt; };
        while (n > 1 && count_for(n) > 1500) --n;
        c.sp.init(T, n);
        int dn = std::max(n, cfg.deeplen); while (dn > n && count_for(dn) > 4000) --dn;   // the widened search after a table mismatch: no table needed, still bounded
        c.deep.init(T, dn, false);
        return c;
    }
    return it->second;
}

static void explore(FrameBase& f, const Gram& g);

static void explore_strings(FrameBase& f, const Gram& g, const ref::LR1& L, Ctx& cx, const TableDump& d, bool lr1_clean, bool table_equal) {
    // precondition: reference automaton L is free of R/R and accept conflicts; S/R cells resolved per documentation
    if (cfg.has_input && cfg.one_input.find_first_of(" \n?") != std::string::npos && !f.custom_lexer) return;   // such inputs belong to explore_rich
    const bool err_gram = g.has_error_symbol();
    const bool reduced_gram = ref::is_reduced(g);
    ref::RefTable rt{L};
    bool want_lang = lr1_clean && !err_gram;
    if (want_lang) cx.lang.compute(g, cx.sp);
    long n_acc = 0, n_rej = 0;
    std::string acc_sample, rej_sample;
    const ref::StrSpace& sp = (lr1_clean && !table_equal && cfg.has("C01")) ? cx.deep : cx.sp;   // a wrong table widens the search for a string-level witness
    static std::vector<std::string> long_words[8];
    std::vector<std::string>& lw = long_words[g.T < 8 ? g.T : 7];
    if (cfg.long_words > 0 && lw.empty() && g.T < 7) {
        for (int a = 0; a < g.T; ++a) { std::string run((size_t)cfg.long_words, char('a' + a)); lw.push_back(run); for (int b = 0; b < g.T; ++b) { lw.push_back(run + char('a' + b)); lw.push_back(std::string(1, char('a' + b)) + run + char('a' + b)); } }
    }
    const int nlong = cfg.long_words > 0 ? (int)lw.size() : 0;
    const int nwords = cfg.has_input ? 1 : sp.count + (int)g_extra_words.size() + nlong;
    for (int id = 0; id < nwords; ++id) {
        const std::string& w = cfg.has_input ? cfg.one_input : id < sp.count ? sp.str[id] : id < sp.count + (int)g_extra_words.size() ? g_extra_words[id - sp.count] : lw[id - sp.count - (int)g_extra_words.size()];
        cur_input = w; cur_phase = "strings"; ++g_heartbeat;
        std::vector<ref::Tok> toks = tokens_of(w);
        ref::Run ex = ref::drive(g, rt, toks, 400 + 40 * (int)w.size());
        if (ex.undefined || ex.horizon) { ctr["ref_no_verdict"]++; continue; }
        if (want_lang && !cfg.has_input && id < cx.sp.count && ex.ok != cx.lang.member(id)) {
            std::fprintf(stderr, "HARNESS ERROR: reference LR driver and CFG membership disagree on '%s' for %s\n", w.c_str(), g.text().c_str());
            std::exit(2);
        }
        ParseObs ro = f.parse(w.data(), w.size(), PM_OSTREAM);
        ctr["parses"]++;
        if (ro.horizon) {
            if (cfg.has("C06") || cfg.has("C01")) add_viol(cfg.has("C06") ? "C06" : "C01", "no-termination", f, g, w, "real parse exceeded the step horizon; reference " + std::string(ex.ok ? "accepts" : "rejects"));
            continue;
        }
        if (ro.bounds || ro.threw) { if (cfg.has("C06")) add_viol("C06", "exception", f, g, w, ro.bounds ? std::string("bounds hook: ") + ro.hit.what : ro.what); continue; }
        std::string real_tree = ro.ok ? show_real(ro.root) : "";
        std::string real_err = ro.err; std::string real_sig = log_sig();
        size_t real_calls = g_obs.log.size(); int real_nodes = ro.ok ? count_nodes_real(ro.root) : 0;
        std::vector<int> consumed = g_obs.consumed;
        (ex.ok ? n_acc : n_rej)++;
        if (ex.ok && acc_sample.empty() && !w.empty()) acc_sample = w; if (!ex.ok && rej_sample.empty()) rej_sample = w;

        if (cfg.has("C01") && lr1_clean && !err_gram) {
            ctr["C01.evals"]++; outcomes["C01"].insert(ex.ok ? "member-accepted" : "nonmember-rejected");
            if (ro.ok != ex.ok) add_viol("C01", ex.ok ? "rejects-derivable" : "accepts-underivable", f, g, w, std::string("parse() returned ") + (ro.ok ? "a value" : "empty") + "; the input is " + (ex.ok ? "" : "not ") + "derivable; stream: " + ro.err);
        }
        if (cfg.has("C02") && !err_gram && ex.ok && ro.ok) {
            ctr["C02.evals"]++;
            std::string et = ex.show(ex.root);
            if (et != real_tree) add_viol("C02", "wrong-tree", f, g, w, "returned " + real_tree + ", derivation tree is " + et);
            else {
                if ((int)real_calls != real_nodes) add_viol("C02", "extra-functor-calls", f, g, w, std::to_string(real_calls) + " functor calls for a tree of " + std::to_string(real_nodes) + " nodes: " + real_sig);
                for (size_t k = 0; k < consumed.size(); ++k) if (consumed[k] != ((int)k == ro.root ? 0 : 1)) { add_viol("C02", "value-not-consumed-once", f, g, w, "value " + std::to_string(k) + " consumed " + std::to_string(consumed[k]) + " times: " + real_sig); break; }
            }
            outcomes["C02"].insert("nodes" + std::to_string(std::min(real_nodes, 12)));
        }
        if (cfg.has("C05") && !lr1_clean && !err_gram) {
            ctr["C05.evals"]++;
            if (ro.ok != ex.ok) add_viol("C05", "wrong-acceptance", f, g, w, std::string("parse() returned ") + (ro.ok ? "a value" : "empty") + ", the documented resolution " + (ex.ok ? "accepts" : "rejects"));
            else if (ro.ok) { std::string et = ex.show(ex.root); if (et != real_tree) add_viol("C05", "wrong-grouping", f, g, w, "returned " + real_tree + ", documented precedence gives " + et); outcomes["C05"].insert(et.substr(0, 24)); }
        }
        if (cfg.has("C08") && err_gram) {
            ctr["C08.evals"]++;
            std::string oc = ex.nerrors == 0 ? "no-error" : ex.ok ? "recovered" : "recovery-failed";
            outcomes["C08"].insert(oc + "-pop" + std::to_string(std::min(ex.popped_states, 3)) + "-skip" + std::to_string(std::min(ex.discarded_terms, 3)));
            if (ex.nerrors) ctr["C08.error_runs"]++; if (ex.nerrors && ex.ok) ctr["C08.recovered"]++;
            std::string ee = expected_errors(g, ex);
            if (ro.ok != ex.ok) add_viol("C08", ex.ok ? "recovery-should-succeed" : "recovery-should-fail", f, g, w, std::string("parse() returned ") + (ro.ok ? "a value" : "empty") + ", documented recovery " + (ex.ok ? "succeeds" : "fails") + "; stream: " + ro.err);
            else if (ro.ok && ex.show(ex.root) != real_tree) add_viol("C08", "wrong-values-after-recovery", f, g, w, "returned " + real_tree + ", documented recovery gives " + ex.show(ex.root));
            else if (real_err != ee) add_viol("C08", "wrong-error-reports", f, g, w, "stream '" + real_err + "' expected '" + ee + "'");
        }
        if (cfg.has("C09") && lr1_clean && !err_gram) {
            ctr["C09.evals"]++;
            std::string ee = expected_errors(g, ex);
            outcomes["C09"].insert(ex.ok ? "silent-success" : "err@" + std::to_string(ex.err_tok[0]) + (ex.err_term[0] == g.eof() ? "eof" : "term"));
            if (reduced_gram || ex.ok || real_err.empty()) {
                if (real_err != ee) add_viol("C09", ex.ok ? "output-on-success" : (real_err.empty() ? "silent-failure" : "wrong-report"), f, g, w, "stream '" + real_err + "' expected '" + ee + "'");
            } else {
                // grammar with unproductive/unreachable symbols: "valid prefix" is ambiguous there, so only the shape of the report is judged:
                // exactly one line, naming the term that stands at the reported position
                bool shape = false;
                for (size_t k = 0; k <= w.size() && !shape; ++k) { int t = k < w.size() ? w[k] - 'a' : g.eof(); if (real_err == "[1:" + std::to_string(k + 1) + "] PARSE: Syntax error: Unexpected '" + term_name(g, t) + "'\n") shape = true; }
                if (!shape) add_viol("C09", "wrong-report", f, g, w, "stream '" + real_err + "' is not a single well-formed report");
                ctr["C09.position_not_judged"]++;
            }
            if (ro.ok == real_err.empty() ? false : true) add_viol("C09", "result-vs-report", f, g, w, std::string("returned ") + (ro.ok ? "a value" : "empty") + " with stream '" + real_err + "'");
        }
        if (cfg.has("C16")) {
            ctr["C16.evals"]++;
            ParseObs r1 = f.parse(w.data(), w.size(), PM_NOSTREAM); std::string s1 = log_sig();
            if (r1.ok != ro.ok || s1 != real_sig || r1.horizon) add_viol("C16", "no-stream-differs", f, g, w, "with no stream: ok=" + std::to_string(r1.ok) + " calls " + s1 + "; with ostream: ok=" + std::to_string(ro.ok) + " calls " + real_sig);
            ParseObs r4 = f.parse(w.data(), w.size(), PM_VERBOSE_NOSTREAM); std::string s4 = log_sig();
            if (r4.ok != ro.ok || s4 != real_sig || r4.horizon) add_viol("C16", "verbose-no-stream-differs", f, g, w, "verbose/no stream: ok=" + std::to_string(r4.ok) + " calls " + s4 + "; plain: ok=" + std::to_string(ro.ok) + " calls " + real_sig);
            ParseObs r3 = f.parse(w.data(), w.size(), PM_VERBOSE_USER); std::string s3 = log_sig(); std::string t3 = r3.err;
            ParseObs r2 = f.parse(w.data(), w.size(), PM_VERBOSE_OSTREAM); std::string s2 = log_sig();
            ctr["parses"] += 4;
            if (r2.ok != ro.ok || s2 != real_sig || r2.horizon) add_viol("C16", "verbose-changes-outcome", f, g, w, "verbose: ok=" + std::to_string(r2.ok) + " calls " + s2 + "; plain: ok=" + std::to_string(ro.ok) + " calls " + real_sig);
            else if (r3.ok != ro.ok || s3 != real_sig || t3 != r2.err) add_viol("C16", "stream-type-changes-outcome", f, g, w, "user stream vs std::ostream differ");
            else {
                std::string filtered;
                std::string why = walk_trace(g, d, w, r2.err, r2.ok, &filtered);   // g_obs.log is the log of r2
                if (!why.empty()) add_viol("C16", "untruthful-trace", f, g, w, why);
                else if (filtered != real_err) add_viol("C16", "messages-differ-in-verbose", f, g, w, "non-verbose stream '" + real_err + "' vs messages inside the trace '" + filtered + "'");
                outcomes["C16"].insert(std::string(ro.ok ? "ok" : "fail") + (ex.nerrors ? "-err" : "") + (ex.popped_states ? "-pop" : "") + (ex.discarded_terms ? "-skip" : ""));
            }
        }
        if (cfg.has("C09") && lr1_clean && !err_gram && !ex.ok) {
            // "before any later input is examined": after the Syntax error line nothing further is recognised
            ParseObs rv = f.parse(w.data(), w.size(), PM_VERBOSE_OSTREAM); ctr["parses"]++;
            size_t e = rv.err.find("Syntax error"); if (e != std::string::npos && rv.err.find("Recognized", e) != std::string::npos) add_viol("C09", "input-examined-after-error", f, g, w, "terms recognised after the error was reported");
        }
        if ((cfg.has("C06") || cfg.has("C12")) && (!err_gram || cfg.has("C06"))) {
            ParseObs rc = f.parse(w.data(), w.size(), PM_CHECKED); ctr["parses"]++;
            std::string sc = log_sig();
            if (cfg.has("C06")) {
                ctr["C06.evals"]++;
                if (g_buf.any()) add_viol("C06", "read-outside-buffer", f, g, w, "user buffer: " + std::to_string(g_buf.deref_end) + " dereferences of end(), " + std::to_string(g_buf.deref_out) + " outside, " + std::to_string(g_buf.move_out) + " iterator moves past end()");
                else if (rc.horizon) add_viol("C06", "no-termination", f, g, w, "step horizon reached with the checked buffer");
                else if (rc.ok != ro.ok || sc != real_sig) add_viol("C06", "buffer-kind-changes-outcome", f, g, w, "checked user buffer vs string_view_buffer differ");
                outcomes["C06"].insert(std::string(rc.ok ? "ok" : "fail") + std::to_string(std::min<size_t>(w.size(), 3)));
            }
            if (!err_gram && f.max_cstr > 0 && (int)w.size() < f.max_cstr) {
                ParseObs rs = f.parse(w.data(), w.size(), PM_CSTRING); ctr["parses"]++;
                std::string ss = log_sig();
                int cap = f.stack_capacity(w.size());
                bool need_more = ex.max_depth > cap;   // the documented driver itself needs more slots than N + EmptyRulesCount + 1
                ctr["C12.stack_evals"]++;
                const bool loud_overflow = rs.threw && rs.what.find("capacity") != std::string::npos;   // the library's own check
                if (rs.bounds || loud_overflow) {
                    std::string det = std::string("fixed-capacity stack exhausted (") + (rs.bounds ? std::string("silent overrun caught by the hook: ") + rs.hit.what : "exception: " + rs.what) + "); the documented driver needs depth " + std::to_string(ex.max_depth) + ", N+EmptyRulesCount+1 = " + std::to_string(cap) + "; the same input parses with string_view_buffer";
                    const char* kf = need_more ? "stack-capacity-formula" : "";
                    if (cfg.has("C12")) add_viol("C12", rs.bounds ? "cstring-stack-overrun" : "cstring-stack-too-small", f, g, w, det, kf);
                    if (cfg.has("C06") && rs.bounds) add_viol("C06", "cstring-stack-overrun", f, g, w, det, "");   // a silent overrun is undefined behaviour; a loud failure is not
                } else if (!rs.supported) {
                } else if (rs.horizon) { if (cfg.has("C06")) add_viol("C06", "no-termination", f, g, w, "cstring_buffer run reached the step horizon"); }
                else if (rs.ok != ro.ok || ss != real_sig) { if (cfg.has("C06")) add_viol("C06", "buffer-kind-changes-outcome", f, g, w, "cstring_buffer vs string_view_buffer differ"); if (cfg.has("C12")) add_viol("C12", "fixed-stacks-change-outcome", f, g, w, "cstring_buffer (fixed stacks) vs string_view_buffer (vector stacks) differ"); }
                if (need_more) ctr["C12.depth_exceeds_formula"]++;
                outcomes["C12"].insert("depth" + std::to_string(std::min(ex.max_depth, 9)) + (need_more ? "-over" : ""));
            }
        }
    }
    if (lr1_clean && !err_gram && n_acc > 0 && n_rej > 0) {
        ctr["nontrivial_lr1"]++;
        for (const char* p : {"C01", "C02", "C09", "C16", "C06"}) if (cfg.has(p)) add_sample(p, jw::Obj().s("grammar", g.text()).s("frame", f.name).s("accepted_input", acc_sample).s("rejected_input", rej_sample).i("accepted", n_acc).i("rejected", n_rej).str());
    }
    if (err_gram && n_acc > 0 && n_rej > 0) { ctr["nontrivial_err"]++; if (cfg.has("C08")) add_sample("C08", jw::Obj().s("grammar", g.text()).s("frame", f.name).i("accepted", n_acc).i("rejected", n_rej).str()); }
}

// ------------------------------------------------------------------------------------------------ sentences of a seed grammar (inputs beyond the length bound)
static void gen_sentences(const Gram& g, int L, size_t cap) {
    g_extra_words.clear();
    std::set<std::vector<int>> seen; std::vector<std::vector<int>> q{{0}}; seen.insert(q[0]); std::set<std::string> out;
    for (size_t qi = 0; qi < q.size() && qi < 400000 && out.size() < cap; ++qi) {
        std::vector<int> f = q[qi];
        size_t k = 0; while (k < f.size() && Gram::is_term(f[k])) ++k;
        if (k == f.size()) { std::string w; for (int sy : f) w += char('a' + Gram::term_of(sy)); out.insert(w); continue; }
        for (int r = 0; r < g.R; ++r) if (g.lhs[r] == f[k]) {
            std::vector<int> nf(f.begin(), f.begin() + k); bool bad = false;
            for (int j = 0; j < g.n[r]; ++j) { if (g.rhs[r][j] == ref::TERM + g.err()) bad = true; nf.push_back(g.rhs[r][j]); }
            if (bad) continue;
            nf.insert(nf.end(), f.begin() + k + 1, f.end());
            int terms = 0; for (int sy : nf) if (Gram::is_term(sy)) ++terms;
            if (terms > L || (int)nf.size() > L + 3) continue;
            if (seen.insert(nf).second) q.push_back(nf);
        }
    }
    std::set<std::string> all(out.begin(), out.end());
    for (const std::string& w : out) for (size_t i = 0; i < w.size() && all.size() < 2 * cap; ++i) { std::string d = w; d.erase(i, 1); all.insert(d); }   // near misses
    for (const std::string& w : all) if ((int)w.size() > cfg.maxlen) g_extra_words.push_back(w);   // shorter ones are in the exhaustive part
}

// ------------------------------------------------------------------------------------------------ inputs with whitespace and foreign bytes (C01/C09)
static std::vector<std::string>& rich_words(int T, int maxlen) {
    static std::map<int, std::vector<std::string>> cache;
    auto& v = cache[T * 100 + maxlen];
    if (v.empty()) {
        std::string al; for (int t = 0; t < T; ++t) al += char('a' + t); al += " \n?";
        std::vector<std::string> all{""};
        for (size_t lo = 0, l = 0; l < (size_t)maxlen; ++l) { size_t hi = all.size(); for (size_t i = lo; i < hi; ++i) for (char c : al) all.push_back(all[i] + c); lo = hi; }
        for (auto& w : all) if (w.find_first_of(" \n?") != std::string::npos) v.push_back(w);   // pure terminal strings are explored by the main pass
    }
    return v;
}
static const TableDump& cx_dump_for_rich(const Gram& g);
static void explore_rich(FrameBase& f, const Gram& g, const ref::LR1& L) {
    ref::RefTable rt{L}; const bool reduced_gram = ref::is_reduced(g);
    for (const std::string& w : rich_words(g.T, cfg.maxlen)) {
        if (cfg.has_input && w != cfg.one_input) continue;
        cur_input = w; cur_phase = "rich-strings"; ++g_heartbeat;
        std::vector<ref::Tok> toks; std::vector<std::pair<int, int>> pos; bool lexfail = false; int fail_off = -1; int line = 1, col = 1; std::pair<int, int> failpos{0, 0};
        for (size_t i = 0; i < w.size(); ++i) {
            char c = w[i];
            if (c == ' ') { ++col; continue; } if (c == '\n') { ++line; col = 1; continue; }
            if (c == '?') { lexfail = true; fail_off = (int)i; failpos = {line, col}; break; }
            toks.push_back(ref::Tok{c - 'a', (int)i, 1}); pos.push_back({line, col}); ++col;
        }
        std::pair<int, int> eofpos{line, col};
        ref::Run ex = ref::drive(g, rt, toks, 400, lexfail);
        if (ex.undefined || ex.horizon) { ctr["ref_no_verdict"]++; continue; }
        ParseObs ro = f.parse(w.data(), w.size(), PM_OSTREAM); ctr["parses"]++; ctr["rich_parses"]++;
        std::string in_vis; for (char c : w) in_vis += c == '\n' ? std::string("\\n") : std::string(1, c);
        if (ro.horizon || ro.bounds || ro.threw) { add_viol(cfg.has("C09") ? "C09" : "C01", "no-result", f, g, w, "input '" + in_vis + "': horizon/exception"); continue; }
        if (cfg.has("C01")) { ctr["C01.evals"]++; if (ro.ok != ex.ok) add_viol("C01", ex.ok ? "rejects-derivable" : "accepts-underivable", f, g, w, "input '" + in_vis + "': parse() returned " + (ro.ok ? "a value" : "empty") + ", the term sequence is " + (ex.ok ? "" : "not ") + "derivable" + (lexfail ? " (and a byte matches no term)" : "")); }
        if (cfg.has("C09")) {
            ctr["C09.evals"]++;
            std::string want;
            for (size_t k = 0; k < ex.err_tok.size(); ++k) { int ti = ex.err_tok[k]; auto pp = ti < (int)pos.size() ? pos[ti] : eofpos; want += "[" + std::to_string(pp.first) + ":" + std::to_string(pp.second) + "] PARSE: Syntax error: Unexpected '" + term_name(g, ex.err_term[k]) + "'\n"; }
            if (ex.lex_error) want += "[" + std::to_string(failpos.first) + ":" + std::to_string(failpos.second) + "] PARSE: Unexpected character: ?\n";
            outcomes["C09"].insert(ex.ok ? "silent-success-ws" : ex.lex_error ? "lexical-error" : "syntax-error-ws");
            if (ex.lex_error || ex.ok || reduced_gram) { if (ro.err != want) add_viol("C09", ex.ok ? "output-on-success" : ro.err.empty() ? "silent-failure" : "wrong-report", f, g, w, "input '" + in_vis + "': stream '" + ro.err + "' expected '" + want + "'"); }
            if (ro.ok != ro.err.empty()) add_viol("C09", "result-vs-report", f, g, w, "input '" + in_vis + "'");
        }
        if (cfg.has("C16")) {
            ctr["C16.evals"]++;
            std::string base_sig = log_sig(), base_err = ro.err;
            ParseObs r1 = f.parse(w.data(), w.size(), PM_NOSTREAM); std::string s1 = log_sig();
            if (r1.ok != ro.ok || s1 != base_sig) add_viol("C16", "no-stream-differs", f, g, w, "input '" + in_vis + "': with no stream ok=" + std::to_string(r1.ok) + ", with ostream ok=" + std::to_string(ro.ok));
            ParseObs r3 = f.parse(w.data(), w.size(), PM_VERBOSE_USER); std::string s3 = log_sig(), t3 = r3.err;
            ParseObs r2 = f.parse(w.data(), w.size(), PM_VERBOSE_OSTREAM); std::string s2 = log_sig(); ctr["parses"] += 3;
            if (r2.ok != ro.ok || s2 != base_sig) add_viol("C16", "verbose-changes-outcome", f, g, w, "input '" + in_vis + "'");
            else if (r3.ok != ro.ok || s3 != base_sig || t3 != r2.err) add_viol("C16", "stream-type-changes-outcome", f, g, w, "input '" + in_vis + "'");
            else { std::string filtered, why = walk_trace(g, cx_dump_for_rich(g), w, r2.err, r2.ok, &filtered);
                if (!why.empty()) add_viol("C16", "untruthful-trace", f, g, w, "input '" + in_vis + "': " + why);
                else if (filtered != base_err) add_viol("C16", "messages-differ-in-verbose", f, g, w, "input '" + in_vis + "'"); outcomes["C16"].insert(std::string("ws-") + (ro.ok ? "ok" : ex.lex_error ? "lexerr" : "syntax")); }
        }
    }
}

// ------------------------------------------------------------------------------------------------ C18: scripted custom lexer
static bool ws_default(unsigned char c) { return c == ' ' || c == '\n' || c == '\t' || c == '\r' || c == '\v' || c == '\f'; }
static void explore_custom(FrameBase& f, const Gram& g, const ref::LR1& L) {
    static std::vector<std::string> inputs;
    if (inputs.empty()) { inputs.push_back(""); const char al[] = {'x', ' ', '\n'}; for (size_t lo = 0, l = 0; l < (size_t)cfg.maxlen; ++l) { size_t hi = inputs.size(); for (size_t i = lo; i < hi; ++i) for (char c : al) inputs.push_back(inputs[i] + c); lo = hi; } }
    ref::RefTable rt{L};
    long scripts_here = 0; bool any_ok = false, any_fail = false;
    for (const std::string& w : inputs) {
        if (cfg.has_input && w != cfg.one_input) continue;
        std::vector<int> prefix;
        while (true) {
            cur_input = w; cur_phase = "custom-lexer"; ++g_heartbeat;
            g_script.begin(g.T, w.data(), w.size(), prefix);
            ParseObs ro = f.parse(w.data(), w.size(), PM_OSTREAM);
            ctr["parses"]++; ctr["C18.evals"]++; ++scripts_here;
            std::string script_txt; for (auto& a : g_script.asks) script_txt += "@" + std::to_string(a.off) + (a.answer < 0 ? "=fail " : "=(" + std::to_string(a.answer / 64) + "," + std::to_string(a.answer % 64) + ") ");
            std::string in_vis; for (char c : w) in_vis += c == '\n' ? std::string("\\n") : std::string(1, c);
            auto viol = [&](const std::string& kind, const std::string& det) { add_viol("C18", kind, f, g, w, "input '" + in_vis + "' script " + script_txt + ": " + det); };
            // (1) where the lexer was asked
            std::vector<ref::Tok> toks; bool lexfail = false; size_t p = 0; bool pos_ok = true;
            auto skip = [&]() { while (p < w.size() && ws_default((unsigned char)w[p])) ++p; };
            skip();
            for (size_t k = 0; k < g_script.asks.size(); ++k) {
                const LexAsk& a = g_script.asks[k];
                if (lexfail) { viol("asked-after-failure", "match() called again after it reported failure"); pos_ok = false; break; }
                if (p >= w.size() || a.off != (int)p) { viol("asked-at-wrong-position", "match() call " + std::to_string(k) + " at offset " + std::to_string(a.off) + ", the next term starts at offset " + std::to_string(p)); pos_ok = false; break; }
                { int l = 1, c = 1; for (int q = 0; q < a.off; ++q) { if (w[q] == '\n') { ++l; c = 1; } else ++c; }
                  if (a.line != l || a.col != c) { viol("stale-source-point-passed-to-lexer", "match() call " + std::to_string(k) + " at offset " + std::to_string(a.off) + " was given source point [" + std::to_string(a.line) + ":" + std::to_string(a.col) + "], the term starts at [" + std::to_string(l) + ":" + std::to_string(c) + "]"); pos_ok = false; break; }
                  if (a.verbose) { viol("wrong-options-passed-to-lexer", "match() was told verbose=true in a non-verbose parse"); pos_ok = false; break; } }
                if (a.answer < 0) { lexfail = true; continue; }
                toks.push_back(ref::Tok{a.answer / 64, a.off, a.answer % 64}); p += a.answer % 64; skip();
            }
            bool have_ex = false; int ex_examined = 0;
            if (ro.horizon) viol("no-termination", "step horizon reached");
            else if (ro.bounds || ro.threw) viol("exception", ro.bounds ? ro.hit.what : ro.what);
            else if (pos_ok) {
                ref::Run ex = ref::drive(g, rt, toks, 400, lexfail);
                if (!ex.undefined && !ex.horizon) {
                    have_ex = true; ex_examined = ex.terms_examined;
                    auto linecol = [&](int off) { int l = 1, c = 1; for (int k = 0; k < off; ++k) { if (w[k] == '\n') { ++l; c = 1; } else ++c; } return "[" + std::to_string(l) + ":" + std::to_string(c) + "]"; };
                    size_t endpos = w.size(); { size_t q = toks.empty() ? 0 : toks.back().off + toks.back().len; while (q < w.size() && ws_default((unsigned char)w[q])) ++q; endpos = q; }
                    std::string want;
                    for (size_t k = 0; k < ex.err_tok.size(); ++k) { int ti = ex.err_tok[k]; want += (ti < (int)toks.size() ? linecol(toks[ti].off) : linecol((int)endpos)) + " PARSE: Syntax error: Unexpected '" + term_name(g, ex.err_term[k]) + "'\n"; }
                    if (ex.lex_error) { int fo = g_script.asks.back().off; want += linecol(fo) + " PARSE: Unexpected character: " + std::string(1, w[fo]) + "\n"; }
                    int asked = (int)g_script.asks.size();
                    int needed = std::min(ex.terms_examined, (int)toks.size() + (lexfail ? 1 : 0));
                    if (asked != needed) viol("wrong-number-of-requests", std::to_string(asked) + " match() calls, the documented driver needs " + std::to_string(needed) + " terms");
                    else if (ro.ok != ex.ok) viol("wrong-acceptance", std::string("parse returned ") + (ro.ok ? "a value" : "empty") + ", the token stream is " + (ex.ok ? "" : "not ") + "accepted");
                    else if (ro.ok && show_real(ro.root) != ex.show(ex.root)) viol("wrong-values", "returned " + show_real(ro.root) + " expected " + ex.show(ex.root));
                    else if (ro.err != want) viol("wrong-messages", "stream '" + ro.err + "' expected '" + want + "'");
                    (ex.ok ? any_ok : any_fail) = true;
                    outcomes["C18"].insert(std::string(ex.ok ? "ok" : ex.lex_error ? "lexfail" : "syntax") + "-asks" + std::to_string(std::min(asked, 5)) + (ex.nerrors && ex.ok ? "-recovered" : ""));
                } else ctr["ref_no_verdict"]++;
            }
            {   // the same script under a verbose parse: same asks, and the lexer is told that the parse is verbose
                std::vector<LexAsk> plain = g_script.asks; std::vector<int> taken = g_script.taken, alts = g_script.alts;
                g_script.begin(g.T, w.data(), w.size(), taken);
                ParseObs rv = f.parse(w.data(), w.size(), PM_VERBOSE_OSTREAM); ctr["parses"]++;
                if (!rv.horizon && !rv.bounds && !rv.threw) {
                    if (g_script.asks.size() != plain.size()) viol("verbose-changes-lexer-requests", std::to_string(g_script.asks.size()) + " match() calls in the verbose parse, " + std::to_string(plain.size()) + " in the plain one");
                    else for (size_t k = 0; k < plain.size(); ++k) { if (g_script.asks[k].off != plain[k].off) { viol("verbose-changes-lexer-requests", "different positions asked"); break; } if (!g_script.asks[k].verbose) { viol("wrong-options-passed-to-lexer", "match() was told verbose=false in a verbose parse"); break; } }
                    if (rv.ok != ro.ok) viol("verbose-changes-outcome", "verbose parse with the same lexer answers gives another result");
                    else if (have_ex && cfg.has("C16") && g_script.asks.size() == plain.size()) {
                        // C16: the trace names the recognised terms - one 'PARSE: Recognized <name>' line per term the custom lexer delivered, in order, and <eof> when the driver reached it
                        std::vector<std::string> got, wantv; std::istringstream is(rv.err); std::string line;
                        while (std::getline(is, line)) { size_t q = line.find(" PARSE: Recognized "); if (q == std::string::npos) continue; std::string nm = line.substr(q + 19); while (!nm.empty() && nm.back() == ' ') nm.pop_back();
                            if (!got.empty() && nm == term_name(g, g.eof()) && got.back() == nm) continue;   // the end of input may be looked at again (no lexer request is involved; the generated-lexer walk accepts the same)
                            got.push_back(nm); }
                        for (const ref::Tok& t : toks) wantv.push_back(term_name(g, t.term));
                        if (!lexfail && ex_examined > (int)toks.size()) wantv.push_back(term_name(g, g.eof()));
                        if (got != wantv) { std::string a, b; for (auto& x : got) a += x + " "; for (auto& x : wantv) b += x + " "; add_viol("C16", "trace-omits-recognised-terms", f, g, w, "input '" + in_vis + "' script " + script_txt + ": the verbose trace names the recognised terms [ " + a + "], the custom lexer delivered [ " + b + "]"); }
                        ctr["C16.custom_traces"]++;
                    }
                }
                g_script.taken = taken; g_script.alts = alts;
            }
            // next script: the last ask that still has an untried alternative
            int i = (int)g_script.taken.size() - 1;
            while (i >= 0 && g_script.taken[i] + 1 >= g_script.alts[i]) --i;
            if (i < 0) break;
            prefix.assign(g_script.taken.begin(), g_script.taken.begin() + i + 1); prefix[i]++;
        }
    }
    ctr["C18.scripts"] += scripts_here;
    if (any_ok && any_fail) { ctr["nontrivial_custom"]++; add_sample("C18", jw::Obj().s("grammar", g.text()).s("frame", f.name).i("scripts", scripts_here).str()); }
}

static void explore(FrameBase& f, const Gram& g) {
    cur_frame = &f; cur_gram = g; cur_input.clear(); cur_phase = "analysis"; ++g_heartbeat;
    ctr["grammars"]++;
    Ctx& cx = ctx_for(g.T);
    ref::Analysis an = ref::analyse(g);
    ref::LR1 can = ref::build_lr1(g, an, false);
    if (can.overflow) { ctr["ref_overflow"]++; return; }
    bool lr1 = can.conflict_free();
    ref::LR1 resolved; const ref::LR1* L = &can;
    if (!lr1) { resolved = ref::build_lr1(g, an, true); L = &resolved; }
    ctr[lr1 ? "grammars_lr1" : can.any_rr ? "grammars_rr" : can.any_acc ? "grammars_accept_conflict" : "grammars_sr_only"]++;
    const bool err_gram = g.has_error_symbol();

    cur_phase = "build";
    BuildResult br = f.build(g);
    if (!br.ok) {
        ctr["construction_refused"]++;
        if ((f.off || f.noff) && !br.bounds) { std::fprintf(stderr, "HARNESS ERROR: lifted frame %s: construction failed under the harness's own limits: %s (grammar %s)\n", f.name.c_str(), br.what.c_str(), g.text().c_str()); std::exit(2); }
        if (cfg.has("C12")) {
            if (br.bounds) add_viol("C12", "item-vector-overflow", f, g, "", std::string("default limits: ") + br.hit.what + " beyond capacity " + std::to_string(br.hit.cap) + " inside the table construction");
            else {
                // known finding default-state-cap-is-item-count, keyed by call site and condition: the default state cap is the number of LR(1) items,
                // (sum over the rules of length + 1) * (terms + 2) + 2 - computed here from the grammar, not read from the header - and the refusal is the
                // state-count one while the canonical automaton really has more states than that. Any other refusal under the default limits stays unlisted.
                size_t items = 0; for (int i = 0; i < g.R; ++i) items += size_t(g.n[i]) + 1;
                const size_t documented_default = items * size_t(g.T + 2) + 2;
                const bool known = br.what.find("State count exceeds the cap") != std::string::npos && can.st.size() > documented_default;
                add_viol("C12", "default-state-cap-too-small", f, g, "", "construction with default limits failed: " + br.what + " (reference automaton has " + std::to_string(can.st.size()) + " states, the default cap for this grammar is " + std::to_string(documented_default) + ")", known ? "default-state-cap-is-item-count" : "");
            }
        }
        return;
    }
    TableDump& d = cx.dump; f.dump(d);
    ctr["states"] += d.nstates;
    TblCmp tc = compare_tables(g, *L, d);
    ctr["cells_compared"] += tc.cells;
    if (!tc.equal) ctr["table_mismatch"]++;
    if (f.custom_lexer) {
        if ((cfg.has("C18") || cfg.has("C16")) && (lr1 || (!L->any_rr && !L->any_acc && !L->any_sr)) && tc.equal) explore_custom(f, g, *L);
        return;
    }
    if (cfg.has("C12")) { ctr["C12.table_evals"]++; outcomes["C12"].insert("states" + std::to_string(std::min(d.nstates, 40))); }

    bool diag_clean = true, missed_acc = false;
    if (cfg.has("C11") || cfg.has("C01") || cfg.has("C09") || cfg.has("C05")) {
        cur_phase = "diag";
        std::string text = f.diag();
        bool any_line = false; std::string conflict_detail;
        std::string why = check_diag(g, *L, d, tc, text, *std::max_element(f.arity.begin(), f.arity.end()) , missed_acc, any_line, conflict_detail);
        diag_clean = !any_line;
        if (cfg.has("C11")) {
            ctr["C11.evals"]++;
            outcomes["C11"].insert(lr1 ? "clean" : std::string(can.any_sr ? "sr" : "") + (can.any_rr ? "rr" : "") + (can.any_acc ? "acc" : ""));
            if (!tc.equal && (tc.items_diff || tc.action_diff || tc.extra_states || tc.target_diff || tc.srflag_diff)) add_viol("C11", "table-not-lr1", f, g, "", tc.first);
            else if (!tc.equal && tc.resolution_diff) add_viol("C11", "wrong-side-preferred", f, g, "", tc.first);
            if (!why.empty()) add_viol("C11", "diag-text", f, g, "", why);
            else if (!conflict_detail.empty()) add_viol("C11", conflict_detail.find("not reported") != std::string::npos ? "missed-conflict" : "spurious-conflict", f, g, "", conflict_detail);
            if (missed_acc) add_viol("C11", "missed-conflict", f, g, "", "accept/reduce conflict on <eof> not reported", "accept-reduce-conflict-on-eof");
            if (!lr1) add_sample("C11", jw::Obj().s("grammar", g.text()).s("frame", f.name).s("class", can.any_rr ? "rr" : can.any_acc ? "accept-conflict" : "sr").i("states", d.nstates).str(), 6);
        }
    }
    if (cfg.has("C05") && !lr1 && can.any_sr) {
        ctr["C05.tables"]++;
        if (!tc.equal && tc.resolution_diff) add_viol("C05", "wrong-resolution", f, g, "", tc.first);
        else if (!tc.equal && !L->any_rr && !L->any_acc) add_viol("C05", "other-cell-affected", f, g, "", tc.first);
    }
    // string level
    bool strings = false;
    if (lr1 && diag_clean && (cfg.has("C01") || cfg.has("C02") || cfg.has("C09") || cfg.has("C16") || cfg.has("C06") || cfg.has("C12") || (cfg.has("C08") && err_gram))) strings = true;
    if (!lr1 && !L->any_rr && !L->any_acc && (cfg.has("C05") || cfg.has("C16") || (cfg.has("C08") && err_gram))) strings = true;
    if (lr1 && !diag_clean) ctr["lr1_but_diag_conflict"]++;
    if (strings && cfg.has("C05") && !lr1 && tc.equal) {
        // several precedence assignments produce the same table; parsing depends on the table only, and an equal
        // real table (already matched cell by cell against its resolved reference) has an isomorphic reference,
        // so each distinct table of a grammar is driven over the strings once
        static std::string last_spec; static std::set<std::string> seen;
        std::string sp = spec_of(g) + "#" + f.name;
        if (sp != last_spec) { last_spec = sp; seen.clear(); }
        std::string key; key.reserve(d.cells.size() * 6);
        for (const CellDump& ce : d.cells) { key += char(ce.kind); key += char(ce.arg & 255); key += char(ce.arg >> 8); key += char(ce.sr); key += char(ce.rule & 255); key += char((ce.rule >> 8) & 255); }
        if (!seen.insert(key).second) { ctr["C05.assignments_with_table_already_driven"]++; strings = false; }
    }
    if (strings) explore_strings(f, g, *L, cx, d, lr1, tc.equal);
    if (strings && cfg.rich && lr1 && diag_clean && !err_gram) explore_rich(f, g, *L);   // cx.dump still holds this grammar's table
}

// ------------------------------------------------------------------------------------------------ enumeration
static bool frame_selected(const FrameBase& f) {
    if (f.seed_only) return false;
    if (bool(cfg.custom) != f.custom_lexer) return false;
    if ((cfg.off >= 0 && f.off != cfg.off) || (cfg.noff >= 0 && f.noff != cfg.noff)) return false;
    if (cfg.nt >= 0 && f.NT != cfg.nt) return false;
    if (cfg.t >= 0 && f.T != cfg.t) return false;
    int W = 0, Lm = 0; bool he = false;
    for (int i = 0; i < f.R; ++i) { W += f.arity[i]; Lm = std::max(Lm, f.arity[i]); for (char e : f.iserr[i]) he = he || e; }
    if (f.R < cfg.minR || f.R > cfg.maxR || W > cfg.maxW || W < cfg.minW || Lm > cfg.maxL) return false;
    if (cfg.err == 0 && he) return false;
    if (cfg.err == 1 && !he) return false;
    return true;
}

static void enumerate_frame(FrameBase& f) {
    std::vector<std::pair<int, int>> pos;
    for (int i = 0; i < f.R; ++i) for (int j = 0; j < f.arity[i]; ++j) if (!f.iserr[i][j]) pos.push_back({i, j});
    unsigned long long total = 1;
    for (int i = 0; i < f.R; ++i) total *= f.NT;
    for (size_t k = 0; k < pos.size(); ++k) total *= (f.NT + f.T);
    Gram g; g.NT = f.NT; g.T = f.T; g.R = f.R;
    for (int i = 0; i < f.R; ++i) { g.n[i] = f.arity[i]; for (int j = 0; j < f.arity[i]; ++j) g.rhs[i][j] = ref::TERM + f.T + 1; }
    g.finish();
    const int S = f.NT + f.T;
    // precedence space (C05 only)
    std::vector<Gram> precs;
    auto run_one = [&](const Gram& gg) { explore(f, gg); };
    long done = 0;
    const bool strided = cfg.stride_count > 0 && total > (unsigned long long)cfg.stride_count;
    const unsigned long long step = strided ? total / (unsigned long long)cfg.stride_count : 1;
    const unsigned long long niter = strided ? (unsigned long long)cfg.stride_count : total;
    for (unsigned long long it = 0; it < niter; ++it) {
        // strided: the it-th of stride_count evenly spaced positions, moved inside its interval by a fixed pseudo-random offset so that every digit of the
        // mixed-radix index (left sides are the low-order digits) varies; the corpus is a fixed, documented subset, not a random one
        const unsigned long long idx = strided ? it * step + (it * 0x9E3779B97F4A7C15ull >> 11) % step : it;
        if ((long long)(it % cfg.nshards) != cfg.shard) continue;
        if (cfg.max_grammars_per_frame >= 0 && done >= cfg.max_grammars_per_frame) break;
        if ((done & 1023) == 0 && elapsed() > cfg.deadline) { deadline_hit = true; ctr["frames_cut_by_deadline"]++; return; }
        ++done;
        unsigned long long x = idx;
        for (int i = 0; i < f.R; ++i) { g.lhs[i] = int(x % f.NT); x /= f.NT; }
        for (auto& pj : pos) { int s = int(x % S); x /= S; g.rhs[pj.first][pj.second] = s < f.NT ? s : ref::TERM + (s - f.NT); }
        if (!cfg.has("C05") && !cfg.with_prec) { run_one(g); continue; }
        // C05: enumerate precedence/associativity only when the canonical collection has an S/R conflict
        ref::Analysis an = ref::analyse(g);
        ref::LR1 can = ref::build_lr1(g, an, false);
        const bool rr_too = cfg.with_prec && can.any_rr;   // diagnostics runs: precedences must not make a reduce/reduce conflict disappear
        if (!can.any_sr && !rr_too) { if (cfg.has("C05")) { ctr["C05.skipped_no_sr"]++; continue; } run_one(g); continue; }
        // terms and rules that take part in some S/R cell (and, for the diagnostics runs, in some R/R cell)
        bool tin[ref::MAXT] = {}, rin[ref::MAXR] = {};
        for (auto& st : can.st) for (int t = 0; t < g.nterms(); ++t) {
            if (st.cell[t].sr) { if (t < g.T) tin[t] = true; int r = st.cell[t].red[0]; rin[r] = true; int lt = g.last_term(r); if (lt >= 0 && lt < g.T) tin[lt] = true;
                // when the rule's last term is the error symbol (precedence 0, no associativity) the ordinary terms before it must NOT matter: vary them too
                if (lt == g.err()) for (int j = 0; j < g.n[r]; ++j) if (Gram::is_term(g.rhs[r][j]) && Gram::term_of(g.rhs[r][j]) < g.T) tin[Gram::term_of(g.rhs[r][j])] = true; }
            if (rr_too && st.cell[t].rr) for (int k = 0; k < st.cell[t].nred && k < 4; ++k) { int r = st.cell[t].red[k]; if (r < g.R) { rin[r] = true; int lt = g.last_term(r); if (lt >= 0 && lt < g.T) tin[lt] = true; } }
        }
        std::vector<int> tl, rl; for (int t = 0; t < g.T; ++t) if (tin[t]) tl.push_back(t); for (int r = 0; r < g.R; ++r) if (rin[r]) rl.push_back(r);
        unsigned long long np = 1; for (size_t k = 0; k < tl.size(); ++k) np *= (unsigned long long)cfg.prec_levels * 3;
        for (unsigned long long pi = 0; pi < np; ++pi) {
            Gram gp = g; unsigned long long y = pi;
            for (int t : tl) { gp.tprec[t] = int(y % cfg.prec_levels) + cfg.prec_base; y /= cfg.prec_levels; gp.tassoc[t] = int(y % 3); y /= 3; }
            run_one(gp); ctr["C05.assignments"]++;
            if (cfg.rprec_max > 0) for (int r : rl) for (int v = -1; v <= cfg.rprec_max; ++v) { if (v == 0) continue; Gram gq = gp; gq.rprec[r] = v; run_one(gq); ctr["C05.assignments"]++; }
        }
    }
}

static void crash_handler(int sig) {
    char buf[2048];
    int n = std::snprintf(buf, sizeof buf, "CRASH signal=%d phase=%s frame=%s gram=%s input=%s\n", sig, cur_phase, cur_frame ? cur_frame->name.c_str() : "-", cur_gram.text().c_str(), cur_input.c_str());
    if (write(2, buf, n) < 0) {}
    if (!cfg.out.empty()) {
        std::ofstream o(cfg.out + ".crash");
        o << jw::Obj().i("signal", sig).s("phase", cur_phase).s("frame", cur_frame ? cur_frame->name : "").s("gram", cur_gram.text()).s("spec", spec_of(cur_gram)).i("nt", cur_gram.NT).i("t", cur_gram.T).s("prec", prec_spec(cur_gram)).s("rprec", rprec_spec(cur_gram)).s("input", cur_input).str() << "\n";
    }
    _exit(sig == 0 ? 4 : 3);
}

static void write_out() {
    if (cfg.out.empty()) return;
    std::vector<std::string> vs;
    for (auto& v : viols) {
        Gram g; // spec for replay is re-derived by the driver from text fields
        vs.push_back(jw::Obj().s("prop", v.prop).s("kind", v.kind).s("frame", v.frame).s("grammar", v.gram).s("prec", v.prec).s("input", v.input).s("detail", v.detail).s("known", v.known).i("nt", v.nt).i("t", v.t).s("spec", v.spec).s("pspec", v.pspec).s("rspec", v.rspec).str());
    }
    jw::Obj samp; for (auto& kv : samples) samp.raw(kv.first, jw::arr(kv.second));
    jw::Obj outc; for (auto& kv : outcomes) { std::vector<std::string> a; for (auto& s : kv.second) a.push_back(jw::esc(s)); outc.raw(kv.first, jw::arr(a)); }
    std::ofstream o(cfg.out);
    o << jw::Obj().raw("counters", jw::counters(ctr)).raw("violation_counts", jw::counters(viol_count)).raw("violations", jw::arr(vs)).raw("samples", samp.str()).raw("outcomes", outc.str()).b("deadline_hit", deadline_hit).raw("elapsed", std::to_string(elapsed())).i("bounds_hook_hits", g_bounds_hits).str() << "\n";
}

int main(int argc, char** argv) {
    t0 = std::chrono::steady_clock::now();
    for (int i = 1; i < argc; ++i) {
        std::string a = argv[i];
        auto next = [&]() { return std::string(i + 1 < argc ? argv[++i] : ""); };
        if (a == "--props") { std::string p = next(); size_t s = 0; while (s <= p.size()) { size_t e = p.find(',', s); if (e == std::string::npos) e = p.size(); if (e > s) cfg.props.insert(p.substr(s, e - s)); s = e + 1; } }
        else if (a == "--shard") { std::string v = next(); cfg.shard = std::atoi(v.c_str()); cfg.nshards = std::atoi(v.c_str() + v.find('/') + 1); }
        else if (a == "--maxlen") cfg.maxlen = std::atoi(next().c_str());
        else if (a == "--deeplen") cfg.deeplen = std::atoi(next().c_str());
        else if (a == "--out") cfg.out = next();
        else if (a == "--nt") cfg.nt = std::atoi(next().c_str());
        else if (a == "--t") cfg.t = std::atoi(next().c_str());
        else if (a == "--minR") cfg.minR = std::atoi(next().c_str());
        else if (a == "--maxR") cfg.maxR = std::atoi(next().c_str());
        else if (a == "--maxW") cfg.maxW = std::atoi(next().c_str());
        else if (a == "--minW") cfg.minW = std::atoi(next().c_str());
        else if (a == "--maxL") cfg.maxL = std::atoi(next().c_str());
        else if (a == "--err") cfg.err = std::atoi(next().c_str());
        else if (a == "--custom") cfg.custom = std::atoi(next().c_str());
        else if (a == "--off") cfg.off = std::atoi(next().c_str());
        else if (a == "--long-words") cfg.long_words = std::atoi(next().c_str());
        else if (a == "--stride-count") cfg.stride_count = std::atol(next().c_str());
        else if (a == "--noff") cfg.noff = std::atoi(next().c_str());
        else if (a == "--deadline") cfg.deadline = std::atof(next().c_str());
        else if (a == "--prec-levels") cfg.prec_levels = std::atoi(next().c_str());
        else if (a == "--prec-base") cfg.prec_base = std::atoi(next().c_str());
        else if (a == "--rprec-max") cfg.rprec_max = std::atoi(next().c_str());
        else if (a == "--with-prec") cfg.with_prec = true;
        else if (a == "--rich") cfg.rich = true;
        else if (a == "--neighbours") cfg.neighbours = true;
        else if (a == "--sentences") cfg.sentences = std::atoi(next().c_str());
        else if (a == "--max-per-frame") cfg.max_grammars_per_frame = std::atol(next().c_str());
        else if (a == "--one") { cfg.one = true; cfg.one_spec = next(); }
        else if (a == "--prec") cfg.one_prec = next();
        else if (a == "--rprec") cfg.one_rprec = next();
        else if (a == "--input") { cfg.one_input = next(); cfg.has_input = true; }
        else if (a == "--seeds") cfg.seeds = next();
        else if (a == "--dump") cfg.dump = next();
        else if (a == "-v") cfg.verbose = true;
        else if (a == "--list-frames") { for (auto* f : registry()) std::printf("%s size=%zu\n", f->name.c_str(), f->object_size()); return 0; }
        else { std::fprintf(stderr, "unknown argument %s\n", a.c_str()); return 2; }
    }
    if (!frame_ctor_failure().empty()) {   // the library could not construct a parser for a well-formed grammar (char terms a..n, bytes 0x80.., nonterminals N0..)
        if (!cfg.out.empty()) { std::ofstream o(cfg.out + ".crash"); o << jw::Obj().i("signal", -1).s("phase", "frame-construction: " + frame_ctor_failure()).s("frame", "").s("gram", "(the frame's own well-formed grammar)").s("spec", "").i("nt", 0).i("t", 0).s("prec", "").s("rprec", "").s("input", "").str() << "\n"; }
        std::fprintf(stderr, "construction of a well-formed parser threw: %s\n", frame_ctor_failure().c_str());
        _exit(3);
    }
    std::signal(SIGSEGV, crash_handler); std::signal(SIGABRT, crash_handler); std::signal(SIGBUS, crash_handler); std::signal(SIGFPE, crash_handler);
    // watchdog: every real call is expected to return within milliseconds; a case that makes no progress for 30 s while the real code is being driven is a hang of the real code (harness-only phases are exempt)
    std::thread([] { unsigned long last = g_heartbeat; int idle = 0; while (true) { sleep(1); unsigned long now = g_heartbeat; if (now == last && cur_frame && std::strcmp(cur_phase, "analysis") != 0) { if (++idle >= 30) crash_handler(0); } else { idle = 0; last = now; } } }).detach();

    auto find_frame = [&](const Gram& g) -> FrameBase* {
        for (auto* f : registry()) {
            if (f->NT != g.NT || f->T != g.T || f->R != g.R || f->custom_lexer != bool(cfg.custom)) continue;
            if ((cfg.off >= 0 && f->off != cfg.off) || (cfg.noff >= 0 && f->noff != cfg.noff)) continue;
            bool ok = true;
            for (int i = 0; i < g.R && ok; ++i) { if (f->arity[i] != g.n[i]) ok = false; else for (int j = 0; j < g.n[i]; ++j) if (bool(f->iserr[i][j]) != (g.rhs[i][j] == ref::TERM + g.err())) ok = false; }
            if (ok) return f;
        }
        return nullptr;
    };
    auto run_spec = [&](const std::string& spec, const std::string& prec, const std::string& rprec, int nt, int t) -> bool {
        Gram g; if (!parse_spec(spec, nt, t, g)) { std::fprintf(stderr, "bad grammar spec %s\n", spec.c_str()); return false; }
        parse_prec(prec, rprec, g);
        FrameBase* f = find_frame(g);
        if (!f) { std::fprintf(stderr, "no compiled frame for %s (NT=%d T=%d)\n", spec.c_str(), nt, t); ctr["seeds_without_frame"]++; return false; }
        if (cfg.sentences > 0) { gen_sentences(g, cfg.sentences, 1500); ctr["seed_sentences"] += (long long)g_extra_words.size(); } else g_extra_words.clear();
        static long work_idx = 0;   // seeds and their variants are dealt round-robin to the shards
        auto mine = [&]() { return (work_idx++ % cfg.nshards) == cfg.shard; };
        if (mine()) { explore(*f, g); ctr["seeds"]++; }
        if (cfg.neighbours) {
            for (int i = 0; i < g.R; ++i) {
                for (int A = 0; A < g.NT; ++A) if (A != g.lhs[i]) { if (!mine()) continue; Gram h = g; h.lhs[i] = A; explore(*f, h); ctr["seed_neighbours"]++; }
                for (int j = 0; j < g.n[i]; ++j) { if (g.rhs[i][j] == ref::TERM + g.err()) continue;
                    for (int sy = 0; sy < g.NT + g.T; ++sy) { int code = sy < g.NT ? sy : ref::TERM + (sy - g.NT); if (code == g.rhs[i][j]) continue; if (!mine()) continue; Gram h = g; h.rhs[i][j] = code; explore(*f, h); ctr["seed_neighbours"]++; } }
            }
        }
        g_extra_words.clear();
        return true;
    };
    if (!cfg.dump.empty()) {
        // conformance dump (DESIGN 1.6): what the injected frame produces for each listed grammar, in the format of gen/dsl_gen.py
        std::ifstream in(cfg.dump); std::string line; ref::StrSpace sp; int spT = -1;
        while (std::getline(in, line)) {
            if (line.empty() || line[0] == '#') continue;
            std::istringstream ls(line); int nt, t; std::string spec; ls >> nt >> t >> spec;
            Gram g; if (!parse_spec(spec, nt, t, g)) return 2;
            FrameBase* f = find_frame(g); if (!f) { std::printf("### %d %d %s\nNO-FRAME\n", nt, t, spec.c_str()); continue; }
            if (spT != t) { sp.init(t, cfg.maxlen); spT = t; }
            std::printf("### %d %d %s\n", nt, t, spec.c_str());
            BuildResult br = f->build(g);
            if (!br.ok) { std::printf("CONSTRUCTION-FAILED\n"); continue; }
            std::string d = f->diag(); std::istringstream ds(d); std::string l;
            while (std::getline(ds, l)) { if (l.rfind("Parser object size", 0) == 0) continue; std::printf("%s\n", l.c_str()); }
            std::printf("---\n");
            if (d.find("R/R CONFLICT") != std::string::npos) { std::printf("parses skipped: reduce/reduce conflict (documented as undefined)\n"); continue; }
            for (int id = 0; id < sp.count; ++id) { ParseObs o = f->parse(sp.str[id].data(), sp.str[id].size(), PM_OSTREAM); std::printf("%s => %s | %s\n", sp.str[id].c_str(), o.horizon ? "horizon" : o.ok ? "ok" : "empty", o.err.c_str()); }
        }
        return 0;
    }
    if (cfg.one) {
        if (cfg.nt < 0 || cfg.t < 0) { std::fprintf(stderr, "--one needs --nt and --t\n"); return 2; }
        bool ok = run_spec(cfg.one_spec, cfg.one_prec, cfg.one_rprec, cfg.nt, cfg.t);
        write_out();
        for (auto& kv : ctr) std::fprintf(stderr, "  %s = %lld\n", kv.first.c_str(), kv.second);
        return ok ? (viols.empty() ? 0 : 1) : 2;
    }
    if (!cfg.seeds.empty()) {
        std::ifstream in(cfg.seeds); std::string line;
        while (std::getline(in, line)) {
            if (line.empty() || line[0] == '#') continue;
            std::istringstream ls(line); int nt, t; std::string spec, prec, rprec; ls >> nt >> t >> spec >> prec >> rprec;
            if (prec == "-") prec.clear(); if (rprec == "-") rprec.clear();
            run_spec(spec, prec, rprec, nt, t);
        }
    }
    for (auto* f : registry()) if (frame_selected(*f)) { ctr["frames"]++; enumerate_frame(*f); if (deadline_hit) break; }
    write_out();
    if (cfg.verbose) for (auto& kv : ctr) std::fprintf(stderr, "  %s = %lld\n", kv.first.c_str(), kv.second);
    return 0;
}
