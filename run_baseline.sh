#!/bin/sh
# Runs the repository's own 56-test suite from /repo's current working tree with the
# verification guard (CTPG_VERIF) OFF. Build output lives under /verif/build/baseline.
set -e
B=/verif/build/baseline
mkdir -p "$B"
cmake -G Ninja -S /repo -B "$B" -DCMAKE_BUILD_TYPE=RelWithDebInfo -DCMAKE_CXX_FLAGS=-Wno-error >"$B/configure.log" 2>&1 || { cat "$B/configure.log"; exit 2; }
cmake --build "$B" >"$B/build.log" 2>&1 || { tail -50 "$B/build.log"; exit 2; }
ctest --test-dir "$B" -j8 --timeout 900 "$@"
