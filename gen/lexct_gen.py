#!/usr/bin/env python3
"""Conformance replay for the generated lexer (DESIGN 1.6): every listed term set becomes a `constexpr parser` (the path
users compile); the program dumps `lexer_sm` in the canonical form of engines/dfa_dump.hpp for comparison with the
lexer table E-RX builds at run time through the same library calls.
usage: lexct_gen.py <termsets.txt> <out.cpp>"""
import sys
def main():
    lines = [l.rstrip('\n') for l in open(sys.argv[1]) if l.strip() and not l.startswith('#')]
    src = ['#include <ctpg/ctpg.hpp>', '#include "dfa_dump.hpp"', 'using namespace ctpg;',
           'struct F { template<class... A> constexpr int operator()(A&&...) const { return 0; } };']
    calls = []
    for k, line in enumerate(lines):
        terms = [t for t in line.split(' | ')]
        decl = []; names = []
        for i, t in enumerate(terms):
            kind, text = t[0], t[2:]
            if kind == 'c': names.append("'%s'" % text)
            elif kind == 's': names.append('"%s"' % text)
            else:
                decl.append('constexpr char pat%d[] = R"~(%s)~"; constexpr regex_term<pat%d> t%d("t%d");' % (i, text, i, i, i)); names.append('t%d' % i)
        rules = ['L() >= F{}'] + ['L(L, %s) >= F{}' % n for n in names]
        src.append('namespace ts_%d { %s constexpr nterm<int> L("L"); constexpr parser p(L, terms(%s), nterms(L), rules(%s)); }' % (k, ' '.join(decl), ', '.join(names), ', '.join(rules)))
        calls.append('    dump_dfa(R"~(%s)~", ts_%d::p.lexer_sm, (long)decltype(ts_%d::p)::lexer_dfa_size);' % (line, k, k))
    src.append('int main() {'); src += calls; src.append('    return 0; }')
    open(sys.argv[2], 'w').write('\n'.join(src) + '\n')
    print(len(lines))
if __name__ == '__main__':
    main()
