#!/usr/bin/env python3
"""E-SCALE generator: grammars at sizes the injection frames cannot reach, one translation unit per family instance.
   scale_gen.py list [tier]            -> instance names
   scale_gen.py emit <name> <out.cpp>  -> the TU (ctpg DSL grammar + the same grammar as dyn::Gram data + scale::run)
Symbols in the Python description: ('n', k) nonterminal k, ('t', k) terminal k, ('e',) the error symbol.
Every terminal is a one-byte char_term; bytes are taken from 0x21..0x7e, 0x80..0xff (no whitespace, no NUL)."""
import sys

BYTES = list(range(0x21, 0x7f)) + list(range(0x80, 0x100))
INT_MAX, INT_MIN = 2147483647, -2147483648

def N(k): return ('n', k)
def T(k): return ('t', k)
E = ('e',)

class Fam:
    def __init__(self, name, nt, terms, rules, state_cap, sit_cap, sample, maxlen=4, sentences=(), parse_prop='C01', note='', texts=None):
        self.name, self.nt, self.terms, self.rules = name, nt, terms, rules            # terms: list of (prec, assoc) ; rules: (lhs, rhs, rprec|None)
        self.state_cap, self.sit_cap, self.sample, self.maxlen, self.sentences, self.parse_prop, self.note = state_cap, sit_cap, sample, maxlen, list(sentences), parse_prop, note
        self.texts = texts   # None: one-byte char terms; else fixed-width string terms with these texts

def plain(n): return [(0, 0)] * n

def fam_terms(Tn, dense=False, strings=False):
    """Tn terminals; the terminals that FOLLOW a nonterminal (= lookaheads of reductions) are the highest-numbered ones, so
    lookahead indices cross the 64-bit word boundaries of the situation / FIRST bitsets; one rule uses the error symbol after a
    nonterminal (term index Tn+1). S -> A t | B t' ... ; A -> a | A b ; B -> c"""
    hi = [Tn - 1, Tn - 2, Tn - 3, max(Tn - 40, 3), Tn // 2]
    hi = sorted(set(h for h in hi if h >= 3))
    if dense: hi = list(range(3, Tn))      # every terminal index is the lookahead of a reduction
    rules = []
    for h in hi: rules.append((0, [N(1), T(h)], None))            # S -> A t_h
    rules.append((0, [N(2), T(hi[-1]), T(hi[0])], None))           # S -> B t_last t_first
    rules.append((0, [N(1), E, T(hi[-1])], None))                  # S -> A error t_last
    rules += [(1, [T(0)], None), (1, [N(1), T(1)], None), (2, [T(2)], None)]
    sample = sorted(set([0, 1, 2, hi[0], hi[-1], hi[-2] if len(hi) > 1 else hi[0]]))
    sent = [[0] + [1] * k + [h] for h in hi for k in (0, 3)] + [[2, hi[-1], hi[0]], [0, 5 % Tn, 7 % Tn, hi[-1]]]
    if dense: sample = [0, 1, 2, 3, Tn - 1]
    texts = ['k%03d' % k for k in range(Tn)] if strings else None
    return Fam(('allterms%d' if dense else 'sterms%d' if strings else 'terms%d') % Tn, 3, plain(Tn), rules, (Tn + 40) if dense else 60, 4 * (Tn + 2) + 40, sample, 4 if not strings else 3, sent, note='%d terminals; reductions under lookaheads %s and the error symbol (index %d)' % (Tn, hi if len(hi) < 12 else '(all)', Tn + 1), texts=texts)

def fam_rules(Rn):
    """Rn rules; the last one (number Rn-1) is the ambiguous E -> E + E (unresolved S/R conflict, shift preferred), the one before
    it E -> E * E with declared precedence (resolved towards reduce). Fillers F -> x y z keep the automaton small."""
    letters = list(range(3, 10))   # terminals 3..9
    rules = [(0, [N(1)], None), (0, [N(2)], None), (1, [T(0)], None)]
    k = 0
    while len(rules) < Rn - 2:
        a, b, c = letters[k // 49 % 7], letters[k // 7 % 7], letters[k % 7]; k += 1
        rules.append((2, [T(a), T(b), T(c)], None))
    rules.append((1, [N(1), T(2), N(1)], None))     # E -> E * E   ('*' = t2, precedence 2 ltor)
    rules.append((1, [N(1), T(1), N(1)], None))     # E -> E + E   ('+' = t1, no precedence: conflicts stay)
    terms = plain(10); terms[2] = (2, 1)
    sent = [[0, 1, 0, 1, 0], [0, 2, 0, 2, 0], [0, 2, 0, 1, 0], [0, 1, 0, 2, 0], [3, 3, 3], [9, 9, 9], [3, 4, 5], [letters[(Rn - 6) // 49 % 7], letters[(Rn - 6) // 7 % 7], letters[(Rn - 6) % 7]]]
    return Fam('rules%d' % Rn, 3, terms, rules, Rn + 80, Rn + 60, [0, 1, 2, 3], 5, sent, parse_prop='C05', note='%d rules; conflicts involve rules %d and %d' % (Rn, Rn - 2, Rn - 1))

def fam_nterms(Nn):
    """Nn nonterminals in a chain of unit rules N_k -> N_{k+1} | N_{k+1} t_(k%3) N_k ... bottoming out in N_last -> a | ( N_0 )"""
    rules = []
    ops = 3
    for k in range(Nn - 1):
        rules.append((k, [N(k + 1)], None))
        if k % 8 == 0 or k >= Nn - 3: rules.append((k, [N(k + 1), T(k % ops), N(k)], None))
    rules += [(Nn - 1, [T(3)], None), (Nn - 1, [T(4), N(0), T(5)], None)]
    sent = [[3], [4, 3, 5], [3, 0, 3], [3, (Nn - 2) % ops, 3], [4, 3, (Nn - 3) % ops, 3, 5, 0, 3], [3, 0, 3, 0, 3, 1, 3]]
    return Fam('nterms%d' % Nn, Nn, plain(6), rules, 3 * Nn + 40, 5 * Nn + 40, [0, (Nn - 2) % ops, 3, 4, 5], 4, sent, note='%d nonterminals (goto columns and symbol indices beyond %d)' % (Nn, Nn - 1))

def fam_long(Ln):
    """right sides of Ln symbols: S -> t0 t1 ... t(L-1) | t0 ... t(L-2) A | first-half B second-half ; A -> t6 | A t7 ; B -> t7 t7"""
    k = 6; h = Ln // 2
    seq = [T(i % k) for i in range(Ln)]
    rules = [(0, seq, None), (0, seq[:-1] + [N(1)], None), (1, [T(6)], None), (1, [N(1), T(7)], None), (0, seq[:h] + [N(2)] + seq[h:], None), (2, [T(7), T(7)], None)]
    full = [i % k for i in range(Ln)]
    sent = [full, full[:-1] + [6], full[:-1] + [6, 7, 7], full[:h] + [7, 7] + full[h:], full[:-1], full + [0], full[:h] + [7] + full[h:], full[:-1] + [7]]
    return Fam('long%d' % Ln, 3, plain(8), rules, 6 * Ln + 40, 120, [0, 1, 6, 7], 3, sent, note='right sides of %d symbols (situation_size %d)' % (Ln + 1, Ln + 2))

def fam_prec(values, name):
    """one binary operator per precedence value, all left associative except the last (right associative), plus a prefix operator
    with an explicit rule precedence equal to the highest value: E -> n | E op_i E | u E [max]"""
    k = len(values)
    terms = [(0, 0)] + [(v, 1) for v in values[:-1]] + [(values[-1], 2)] + [(0, 0)]   # t0 = n, t1..tk operators, t(k+1) = prefix 'u'
    rules = [(0, [T(0)], None)] + [(0, [N(0), T(i + 1), N(0)], None) for i in range(k)] + [(0, [T(k + 1), N(0)], max(values))]
    sent = []
    for i in range(1, k + 1):
        for j in range(1, k + 1): sent.append([0, i, 0, j, 0]); sent.append([k + 1, 0, i, 0, j, 0])
    return Fam(name, 1, terms, rules, 40 + 4 * k, 40 + (k + 4) * (k + 4) * 3, [0, 1, k, k + 1], 5, sent, parse_prop='C05', note='precedence values %s' % (values,))

def fam_rprec(values, name):
    """explicit rule precedences [v] at values that an implementation might use as a marker for "none given": every operator term has precedence 7 (ltor),
    rule i is E -> E op_i E [v_i]; correct resolution compares v_i with 7, a rule mistaken for "no explicit precedence" would take 7 from its last term"""
    k = len(values)
    terms = [(0, 0)] + [(7, 1)] * k
    rules = [(0, [T(0)], None)] + [(0, [N(0), T(i + 1), N(0)], values[i]) for i in range(k)]
    sent = []
    for i in range(1, k + 1):
        for j in (1, max(1, k // 2), k): sent.append([0, i, 0, j, 0])
    return Fam(name, 1, terms, rules, 40 + 4 * k, 60 + (k + 4) * (k + 4) * 3, [0, 1, k], 5, sent, parse_prop='C05', note='explicit rule precedences %s against term precedence 7' % (values,))

def fam_recover(Tn):
    """recovery with many terminals: statements S -> S stmt | eps ; stmt -> t_i ';' | error ';' for the highest terminals"""
    semi = Tn - 1
    heads = [0, Tn // 2, Tn - 3, Tn - 2]
    rules = [(0, [], None), (0, [N(0), N(1)], None), (1, [E, T(semi)], None)] + [(1, [T(h), T(semi)], None) for h in heads]
    sent = [[heads[0], semi, heads[3], semi], [heads[3], heads[3], semi, heads[2], semi], [semi, semi], [1, 2, 3, semi, heads[1], semi], [heads[2]]]
    return Fam('recover%d' % Tn, 2, plain(Tn), rules, 40, 3 * (Tn + 2) + 40, sorted(set([0, 1, Tn - 2, semi])), 5, sent, parse_prop='C08', note='%d terminals, error rule' % Tn)

def fam_states(bits, tail):
    """many states: S -> c1..c_bits x^tail for every code c over {a, b}: 2^bits rules of bits+tail symbols; the automaton is a trie followed by
    2^bits separate tails (state numbers beyond 2^12 / 2^13), conflict-free"""
    n = 1 << bits
    rules = []
    for code in range(n):
        rules.append((0, [T((code >> (bits - 1 - i)) & 1) for i in range(bits)] + [T(2)] * tail, None))
    nstates = (n - 1) * 2 + 1 + n * tail + 4
    sent = []
    for code in (0, 1, n // 2, n - 2, n - 1, 5 % n, 42 % n):
        w = [(code >> (bits - 1 - i)) & 1 for i in range(bits)] + [2] * tail
        sent += [w, w[:-1], w + [2], w[:bits] + [0] + w[bits + 1:]]
    return Fam('states%d' % (nstates - 4), 1, plain(3), rules, nstates + 40, n + 8, [0, 1, 2], 3, sent, note='%d rules of %d symbols, about %d states' % (n, bits + tail, nstates))

def fam_chain(D):
    """a nullable unit chain of depth D closed by a feedback rule, written so that every fact travels against the rule order:
    G -> F S ; F -> eps ; S -> C1 ; C1 -> C2 ; ... ; C(D-1) -> CD ; CD -> eps | S a      (language a*, LR(1), D + 4 rules)
    nullability needs about D passes over the rules to reach S, FIRST(S) = {a} about D more: more passes than there are rules"""
    rules = [(0, [N(1), N(2)], None), (1, [], None)] + [(2 + k, [N(3 + k)], None) for k in range(D)] + [(2 + D, [], None), (2 + D, [N(2), T(0)], None)]
    sent = [[], [0], [0, 0], [0] * 7, [1], [0, 1], [0, 0, 1, 0]]     # terminal 1 is declared and used by no rule
    return Fam('chain%d' % D, D + 3, plain(2), rules, 2 * D + 40, 4 * D + 40, [0, 1], 5, sent, note='nullable unit chain of depth %d with feedback: %d rules, about %d analysis passes' % (D, D + 4, 2 * D))

def fam_fan(k, m=4):
    """an item with many closure children that occurs in two states: S -> p A | q A | q c x ; A -> c B C ; B -> b_1 | ... | b_k ; C -> c_1 | ... | c_m | eps
    [A -> c . B C, eof] expands to k rules of B under m + 1 lookaheads (m from FIRST(C), one inherited through the nullable C), in the state after
    'p c' and again, next to another kernel item, in the state after 'q c'. k * (m + 1) is swept across 32, 64, 100, 128, 200, 256."""
    tb, tc = 4 + m, 4     # t0 p, t1 q, t2 c, t3 x, t4.. the alternatives of C, then the alternatives of B
    rules = [(0, [T(0), N(1)], None), (0, [T(1), N(1)], None), (0, [T(1), T(2), T(3)], None), (1, [T(2), N(2), N(3)], None)]
    rules += [(2, [T(tb + i)], None) for i in range(k)] + [(3, [T(tc + j)], None) for j in range(m)] + [(3, [], None)]
    last = tb + k - 1
    sent = [[0, 2, tb], [1, 2, tb], [1, 2, last], [0, 2, last, tc], [1, 2, last, tc + m - 1], [1, 2, tb + k // 2, tc], [1, 2, 3], [0, 2, 3], [1, 2, tb, tb], [1, 2, tb, tc, tc]]
    return Fam('fan%d' % k, 4, plain(4 + m + k), rules, 3 * k + 60, 6 * k + 80, [0, 1, 2, 3, tc, tb, last], 4, sent, note='%d alternatives x %d lookaheads = %d closure children of one item, in two states' % (k, m + 1, k * (m + 1)))

def fam_cell(n):
    """one table cell with many items: E -> num | E + E | E + E s_1 | ... | E + E s_n with '+' left associative: the state after E + E holds, on '+',
    the reduction by E -> E + E and (n + 1) * (n + 2) shift items: a resolved S/R cell (reduce) of (n+1)(n+2)+1 items, swept across 32, 64, 128, 256, 512"""
    terms = [(0, 0), (1, 1)] + [(0, 0)] * n       # t0 num, t1 '+', t2.. suffixes
    rules = [(0, [T(0)], None), (0, [N(0), T(1), N(0)], None)] + [(0, [N(0), T(1), N(0), T(2 + i)], None) for i in range(n)]
    sent = [[0], [0, 1, 0], [0, 1, 0, 1, 0], [0, 1, 0, 2], [0, 1, 0, 1, 0, 2], [0, 1, 0, n + 1, 1, 0], [0, 1, 0, 1, 0, 1, 0], [0, 1, 0, 2, 2], [0, 1, 1]]
    return Fam('cell%d' % n, 1, terms, rules, 4 * n + 60, 3 * (n + 3) * (n + 3) + 60, [0, 1, 2, n + 1], 5, sent, parse_prop='C05', note='a conflict cell of %d items' % ((n + 1) * (n + 2) + 1))

def families(tier='quick'):
    F = [fam_terms(62), fam_terms(63), fam_terms(64), fam_terms(65), fam_terms(130), fam_terms(70, True),
         fam_rules(256), fam_rules(257),
         fam_nterms(64), fam_nterms(66),
         fam_long(9), fam_long(17), fam_long(33),
         fam_prec([1, 2, 3, 4, 5, 6, 7, 8, 9], 'prec9levels'),
         fam_prec([INT_MIN, -70000, -32769, -1, 32767, 32768, 65536, 70000, INT_MAX], 'precwide'),
         fam_prec([-32768, 32768, 65535, 65537, 131072], 'prec16bit'),
         fam_recover(63), fam_recover(129), fam_states(6, 64), fam_terms(258, strings=True), fam_long(257), fam_nterms(258),
         fam_rprec([INT_MIN, INT_MIN + 1, -65536, -32768, -2, -1, 1, 6, 7, 8, 32767, 65535, INT_MAX - 1, INT_MAX], 'rprecsentinel'),
         fam_chain(6), fam_chain(12), fam_chain(40), fam_fan(8), fam_fan(14), fam_fan(24), fam_fan(30), fam_cell(5), fam_cell(10), fam_cell(15)]
    if tier != 'quick':
        F += [fam_terms(61), fam_terms(126), fam_terms(127), fam_terms(128), fam_terms(129), fam_terms(200), fam_terms(140, True), fam_terms(200, True),
              fam_rules(254), fam_rules(255), fam_rules(258), fam_rules(300), fam_nterms(130), fam_long(65), fam_recover(65), fam_recover(200), fam_states(7, 64), fam_terms(300, dense=False, strings=True), fam_terms(520, strings=True), fam_long(300), fam_chain(100), fam_fan(16), fam_fan(45), fam_fan(60), fam_fan(100), fam_cell(7), fam_cell(22), fam_cell(31)]
    return F

def sym_cpp(s):
    return 'n%d' % s[1] if s[0] == 'n' else ('t%d' % s[1] if s[0] == 't' else 'error')
def sym_dyn(s, f):
    return str(s[1]) if s[0] == 'n' else ('dyn::TB + %d' % s[1] if s[0] == 't' else 'dyn::TB + %d' % (len(f.terms) + 1))

def emit(f, out):
    Tn = len(f.terms)
    assert f.texts is not None or Tn <= len(BYTES)
    o = ['// generated by gen/scale_gen.py: family %s (%s)' % (f.name, f.note), '#include "scale_main.hpp"', 'using namespace ctpg;', '']
    for k in range(f.nt): o.append('constexpr nterm<int> n%d("N%d");' % (k, k))
    assoc = {0: 'associativity::no_assoc', 1: 'associativity::ltor', 2: 'associativity::rtol'}
    for k, (p, a) in enumerate(f.terms):
        if f.texts is None: o.append('constexpr char_term t%d(char(0x%02x), %s, %s);' % (k, BYTES[k], ('(-2147483647 - 1)' if p == INT_MIN else str(p)), assoc[a]))
        else: o.append('constexpr string_term t%d("%s", %s, %s);' % (k, f.texts[k], ('(-2147483647 - 1)' if p == INT_MIN else str(p)), assoc[a]))
    o.append('struct Lim { static const size_t state_count_cap = %d; static const size_t max_sit_count_per_state_cap = %d; };' % (f.state_cap, f.sit_cap))
    rl = []
    for i, (l, rhs, rp) in enumerate(f.rules):
        r = 'n%d(%s)' % (l, ', '.join(sym_cpp(s) for s in rhs))
        if rp is not None: r += '[%s]' % ('(-2147483647 - 1)' if rp == INT_MIN else str(rp))
        rl.append('        %s >= scale::F<%d>{}' % (r, i))
    o.append('static auto make_p() {\n    return new parser(n0, terms(%s), nterms(%s), rules(\n%s\n    ), use_generated_lexer{}, Lim{});\n}' % (
        ', '.join('t%d' % k for k in range(Tn)), ', '.join('n%d' % k for k in range(f.nt)), ',\n'.join(rl)))
    o.append('using P = std::remove_pointer_t<decltype(make_p())>;')
    o.append('int main() {')
    o.append('    dyn::Gram g; g.NT = %d; g.T = %d;' % (f.nt, Tn))
    if f.texts is None: o.append('    static const unsigned char tb[] = {%s};' % ', '.join('0x%02x' % BYTES[k] for k in range(Tn)))
    else: o.append('    static const char* const tx[] = {%s};' % ', '.join('"%s"' % t for t in f.texts))
    o.append('    static const long long tp[] = {%s}; static const int ta[] = {%s};' % (', '.join('%dLL' % p if p != INT_MIN else '(-2147483647LL - 1)' for p, a in f.terms), ', '.join(str(a) for p, a in f.terms)))
    if f.texts is None:
        o.append('    for (int k = 0; k < g.T; ++k) { char nm[8]; if (tb[k] > 32 && tb[k] < 127) std::snprintf(nm, sizeof nm, "%c", tb[k]); else std::snprintf(nm, sizeof nm, "\\\\x%02X", tb[k]); g.tname.push_back(nm); g.tprec.push_back(tp[k]); g.tassoc.push_back(ta[k]); }')
    else: o.append('    for (int k = 0; k < g.T; ++k) { g.tname.push_back(tx[k]); g.tprec.push_back(tp[k]); g.tassoc.push_back(ta[k]); }')
    o.append('    for (int k = 0; k < g.NT; ++k) g.ntname.push_back("N" + std::to_string(k));')
    for (l, rhs, rp) in f.rules:
        body = '{%s}' % ', '.join(sym_dyn(s, f) for s in rhs)
        o.append('    g.rule%s(%d, std::vector<int>%s%s);' % ('_p' if rp is not None else '', l, body, (', %dLL' % rp if rp != INT_MIN else ', (-2147483647LL - 1)') if rp is not None else ''))
    o.append('    g.finish();')
    o.append('    scale::Config cfg; cfg.family = "%s"; cfg.parse_prop = "%s"; cfg.maxlen = %d;' % (f.name, f.parse_prop, f.maxlen))
    if f.texts is None: o.append('    for (int k = 0; k < g.T; ++k) cfg.term_text.push_back(std::string(1, char(tb[k])));')
    else: o.append('    for (int k = 0; k < g.T; ++k) cfg.term_text.push_back(tx[k]);')
    o.append('    cfg.sample = {%s};' % ', '.join(str(s) for s in f.sample))
    for s in f.sentences: o.append('    cfg.sentences.push_back({%s});' % ', '.join(str(x) for x in s))
    o.append('    return scale::run<P>(&make_p, g, cfg);')
    o.append('}')
    open(out, 'w').write('\n'.join(o) + '\n')

if __name__ == '__main__':
    if sys.argv[1] == 'list': print(' '.join(f.name for f in families(sys.argv[2] if len(sys.argv) > 2 else 'quick')))
    elif sys.argv[1] == 'emit':
        for f in families('thorough'):
            if f.name == sys.argv[2]: emit(f, sys.argv[3]); break
        else: sys.exit('unknown family ' + sys.argv[2])
