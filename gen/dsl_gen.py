#!/usr/bin/env python3
"""DSL conformance replays (DESIGN 1.6): emit ordinary ctpg programs - one parser definition written in the DSL per
grammar - that print the diagnostic text and the parse result of every string up to a bound, in the format of
`gram --dump`, so the injected frames can be compared with what users compile.
usage: dsl_gen.py <tier> <outdir> <ntus> <maxlen>   -> writes dsl_XX.cpp and specs.txt"""
import sys, itertools, os

def grammars(tier):
    NT, T = 2, 2
    out = []
    def vecs(R, W):
        for v in itertools.product(range(4), repeat=R):
            if sum(v) <= W: yield v
    shapes = list(vecs(1, 3)) + (list(vecs(2, 3)) if tier == 'thorough' else [(1, 1), (0, 2), (2, 0)])
    S = NT + T
    for v in shapes:
        R = len(v); pos = sum(v)
        for lhs in itertools.product(range(NT), repeat=R):
            for rhs in itertools.product(range(S), repeat=pos):
                it = iter(rhs); rules = []
                for i in range(R):
                    rules.append((lhs[i], [next(it) for _ in range(v[i])]))
                out.append(rules)
    return NT, T, out

def spec(rules, NT):
    return ';'.join('%d=%s' % (l, ''.join(str(s) if s < NT else chr(ord('a') + s - NT) for s in r)) for l, r in rules)

def main():
    tier, outdir, ntus, maxlen = sys.argv[1], sys.argv[2], int(sys.argv[3]), int(sys.argv[4])
    NT, T, gs = grammars(tier)
    os.makedirs(outdir, exist_ok=True)
    with open(os.path.join(outdir, 'specs.txt'), 'w') as f:
        for g in gs: f.write('%d %d %s\n' % (NT, T, spec(g, NT)))
    strings = ['']
    for l in range(1, maxlen + 1): strings += [''.join(t) for t in itertools.product('ab', repeat=l)]
    per = (len(gs) + ntus - 1) // ntus
    for k in range(ntus):
        chunk = gs[k * per:(k + 1) * per]
        src = ['#include <ctpg/ctpg.hpp>', '#include <cstdio>', '#include <sstream>', '#include <string>',
               'using namespace ctpg; using namespace ctpg::buffers;',
               'static long g_steps = 0; struct Stop {};',
               'struct F { template<class... A> int operator()(A&&...) const { if (++g_steps > 3000) throw Stop{}; return 0; } };',
               'constexpr nterm<int> N0("N0"); constexpr nterm<int> N1("N1");',
               'static const char* STR[] = {%s};' % ', '.join('"%s"' % s for s in strings),
               'template<class P> static void dump(const char* spec, const P& p) {',
               '    std::printf("### %d %d %%s\\n", spec);' % (NT, T),
               '    std::ostringstream d; p.write_diag_str(d); std::istringstream ds(d.str()); std::string l; bool rr = d.str().find("R/R CONFLICT") != std::string::npos;',
               '    while (std::getline(ds, l)) { if (l.rfind("Parser object size", 0) == 0) continue; std::printf("%s\\n", l.c_str()); }',
               '    std::printf("---\\n");',
               '    if (rr) { std::printf("parses skipped: reduce/reduce conflict (documented as undefined)\\n"); return; }',
               '    for (const char* s : STR) { std::ostringstream es; g_steps = 0; try { auto r = p.parse(string_view_buffer(std::string_view(s)), es); std::printf("%s => %s | %s\\n", s, r ? "ok" : "empty", es.str().c_str()); } catch (const Stop&) { std::printf("%s => horizon | \\n", s); } }',
               '}']
        for i, g in enumerate(chunk):
            rules = ', '.join('N%d(%s) >= F{}' % (l, ', '.join(('N%d' % s) if s < NT else ("'%s'" % chr(ord('a') + s - NT)) for s in r)) for l, r in g)
            src.append('static void g_%d() { try { auto* p = new parser(N0, terms(\'a\', \'b\'), nterms(N0, N1), rules(%s)); dump("%s", *p); delete p; } catch (const std::exception&) { std::printf("### %d %d %s\\nCONSTRUCTION-FAILED\\n"); } }' % (i, rules, spec(g, NT), NT, T, spec(g, NT)))
        src.append('int main() { %s return 0; }' % ' '.join('g_%d();' % i for i in range(len(chunk))))
        open(os.path.join(outdir, 'dsl_%02d.cpp' % k), 'w').write('\n'.join(src) + '\n')
    print(len(gs))

if __name__ == '__main__':
    main()
