#!/usr/bin/env python3
"""E-CT generator for C07: one translation unit per grammar, one `constexpr auto r_i = p.parse(cstring_buffer("..."))`
per line, so that compiler diagnostics can be mapped back to the case that is not a constant expression.
usage: c07_gen.py <grammar> <maxlen> <out.cpp> <out.map.json>"""
import sys, json, itertools

GRAMMARS = {
 'stars': dict(alphabet=['*', ' ', 'x'], code=r'''
constexpr nterm<int> root("root");
#define PARSER_ARGS root, terms('*'), nterms(root), rules( \
        root('*') >= val(1), \
        root(root, '*') >= [](int sum, skip){ return sum + 1; })'''),
 'expr': dict(alphabet=['1', '2', '+', '*', '(', ')', ' ', 'x'], code=r'''
constexpr nterm<int> expr("expr");
constexpr char_term o_plus('+', 1, associativity::ltor);
constexpr char_term o_mul('*', 2, associativity::ltor);
#define PARSER_ARGS expr, terms('1', '2', o_plus, o_mul, '(', ')'), nterms(expr), rules( \
        expr('1') >= val(1), expr('2') >= val(2), \
        expr(expr, '+', expr) >= [](int a, skip, int b){ return a + b; }, \
        expr(expr, '*', expr) >= [](int a, skip, int b){ return a * b; }, \
        expr('(', expr, ')') >= _e2)'''),
 'recovery': dict(alphabet=['x', ';', 'y', ' ', 'z'], code=r'''
constexpr nterm<int> root("root"); constexpr nterm<int> list("list");
#define PARSER_ARGS root, terms('x', ';', 'y'), nterms(root, list), rules( \
        root(list, ';') >= _e1, \
        root(error, ';') >= val(-1), \
        list() >= val(0), \
        list(list, 'x') >= [](int sum, skip){ return sum + 1; })'''),
 'nul': dict(alphabet=['a', '\0', 'b', ' '], code=r'''
constexpr nterm<int> root("root");
#define PARSER_ARGS root, terms('a', '\0'), nterms(root), rules( \
        root() >= val(0), \
        root(root, 'a') >= [](int n, skip){ return n * 2 + 1; }, \
        root(root, '\0') >= [](int n, skip){ return n * 2; })'''),
 'numbers': dict(alphabet=['1', '0', ',', ' ', 'x', '\n'], code=r'''
constexpr int to_int(std::string_view sv) { int sum = 0; for (auto c : sv) { sum *= 10; sum += c - '0'; } return sum; }
constexpr char number_pattern[] = "[1-9][0-9]*";
constexpr regex_term<number_pattern> number("number");
constexpr nterm<int> list("list");
#define PARSER_ARGS list, terms(',', number), nterms(list), rules( \
        list(number) >= to_int, \
        list(list, ',', number) >= [](int sum, skip, const auto& n){ return sum + to_int(n); })'''),
}

# long literals: the fixed-capacity stacks chosen for cstring_buffer<N> must keep the parse a constant expression at any literal length
# (one-dimensional sweep around 2^8 and 2^10, accepted and rejected inputs)
def _long_stars():
    out = []
    for n in (100, 255, 256, 257, 1021, 1022, 1023, 1024, 1025, 1100, 2047, 2048, 2049):
        out.append('*' * n)
    out += ['*' * 1100 + 'x', ' ' * 1030 + '*', '*' * 600 + ' ' + '*' * 600]
    return out
def _long_recovery():
    return ['x' * n + ';' for n in (255, 1021, 1022, 1023, 1024, 1100)] + ['x' * 600 + 'y' + 'x' * 600 + ';', 'x' * 1100 + 'y', 'y' * 1100 + ';']
def _long_expr():
    return ['(' * d + '1' + ')' * d for d in (100, 340, 511, 512, 600)] + ['1' + '+2' * k for k in (300, 511, 512, 600)] + ['(' * 600 + '1', '1' + '+2' * 600 + '+']
# the other call forms during constant evaluation: non-default options, a context, a custom lexer
GRAMMARS['stars-nows'] = dict(GRAMMARS['stars'], opts='parse_options{}.set_skip_whitespace(false)')
GRAMMARS['recovery-nonl'] = dict(GRAMMARS['recovery'], alphabet=['x', ';', 'y', ' ', '\n'], opts='parse_options{}.set_skip_newline(false)')
GRAMMARS['ctx'] = dict(alphabet=['a', 'b', ' ', 'x'], ctx='const int ctx_base = 100;', code=r'''
constexpr nterm<int> S("S"); constexpr nterm<int> L("L");
#define PARSER_ARGS S, terms('a', 'b'), nterms(S, L), rules( \
        S(L) >>= [](const int& c, int n){ return c + n; }, \
        L() >= val(0), \
        L(L, 'a') >>= [](const int& c, int n, skip){ return n * 3 + 1 + (c - 100); }, \
        L(L, 'b') >= [](int n, skip){ return n * 3 + 2; })''')
GRAMMARS['custom'] = dict(alphabet=['1', '9', ',', ' ', 'x'], code=r'''
struct int_lexer {
    template<typename Iterator, typename ErrorStream>
    constexpr recognized_term match(match_options, source_point, Iterator start, Iterator end, ErrorStream&) {
        if (start == end) return recognized_term{};
        if (*start >= '0' && *start <= '9') return recognized_term(1, 1);
        if (*start == ',') return recognized_term(0, 1);
        return recognized_term{};
    }
};
constexpr nterm<int> list("list");
constexpr custom_term number("number", [](auto sv){ return int(sv[0]) - '0'; });
constexpr custom_term comma(",", create<no_type>{});
#define PARSER_ARGS list, terms(comma, number), nterms(list), rules( \
        list(number), \
        list(list, comma, number) >= [](int sum, skip, int x){ return sum + x; }), use_lexer<int_lexer>{}''')
# a large literal value type (8 KiB) inside the value variant: the fixed stacks of cstring_buffer<N> then need N * 8 KiB, and must stay usable in a constant expression
GRAMMARS['bigvalue'] = dict(alphabet=['*'], long=['*' * k for k in (0, 1, 2, 7, 50, 100, 200, 400)] + ['*' * 30 + 'x', ' ' * 100 + '**'], code=r'''
struct Big { int v; char pad[8188]; constexpr Big() : v(0), pad{} {} constexpr Big(int x) : v(x), pad{} {} constexpr Big(const Big& o) : v(o.v), pad{} {} constexpr Big(Big&&) = default; constexpr Big& operator=(const Big&) = default; constexpr Big& operator=(Big&&) = default; };   // literal, trivially destructible, trivially movable, NOT trivially copyable (user-provided copy constructor)
constexpr nterm<int> root("root"); constexpr nterm<Big> stars("stars");
#define PARSER_ARGS root, terms('*'), nterms(root, stars), rules( \
        root(stars) >= [](const Big& b){ return b.v; }, \
        stars('*') >= [](skip){ return Big(1); }, \
        stars(stars, '*') >= [](const Big& b, skip){ return Big(b.v + 1); })''')
# the helper functors inside constant evaluation: val, create, construct, _e1.._e3, and a rule without functor
GRAMMARS['helpers'] = dict(alphabet=['1', '2', '+', '(', ')', ' '], code=r'''
struct Wrapped { int v; constexpr Wrapped() : v(0) {} constexpr Wrapped(int x) : v(x) {} constexpr operator int() const { return v; } };
constexpr nterm<int> expr("expr"); constexpr nterm<Wrapped> atom("atom"); constexpr nterm<int> zero("zero"); constexpr nterm<Wrapped> unit("unit");
#define PARSER_ARGS expr, terms('1', '2', '+', '(', ')'), nterms(expr, atom, zero, unit), rules( \
        expr(atom) >= construct<int, 1>{}, \
        expr(expr, '+', atom) >= [](int a, skip, const Wrapped& b){ return a + b.v; }, \
        atom('1') >= val(Wrapped(1)), atom('2') >= val(Wrapped(2)), \
        atom('(', expr, ')') >= _e2, \
        atom('(', zero, unit, ')') >= _e3, \
        zero() >= create<int>{}, \
        unit(zero) >= construct<Wrapped, 1>{})''')
GRAMMARS['stars-long'] = dict(GRAMMARS['stars'], long=_long_stars())
GRAMMARS['recovery-long'] = dict(GRAMMARS['recovery'], long=_long_recovery())
GRAMMARS['expr-long'] = dict(GRAMMARS['expr'], long=_long_expr())

def lit(s):
    out = ''
    for ch in s:
        o = ord(ch)
        if ch in '"\\': out += '\\' + ch
        elif 32 <= o < 127: out += ch
        else: out += '\\%03o' % o
    return '"' + out + '"'

def main():
    g, n, out, mp = sys.argv[1], int(sys.argv[2]), sys.argv[3], sys.argv[4]
    G = GRAMMARS[g]
    inputs = ['']
    for l in range(1, n + 1):
        inputs += [''.join(t) for t in itertools.product(G['alphabet'], repeat=l)]
    if 'long' in G: inputs = list(G['long'])
    lines = ['#include <ctpg/ctpg.hpp>', '#include <cstdio>', '#include <string>', '#include <optional>',
             'using namespace ctpg; using namespace ctpg::ftors; using namespace ctpg::buffers;', G['code'],
             'constexpr parser p(PARSER_ARGS);',
             '#define OPTS ' + G.get('opts', 'parse_options{}'), G.get('ctx', ''),
             # every parse goes through the same overload family: (options, buffer, stream), with the context when the grammar has one
             ('template<class P, class B> constexpr auto do_parse(const P& q, const B& b) { utils::no_stream ns; return q.context_parse(ctx_base, OPTS, b, ns); }' if 'ctx' in G else
              'template<class P, class B> constexpr auto do_parse(const P& q, const B& b) { utils::no_stream ns; return q.parse(OPTS, b, ns); }') if ('opts' in G or 'ctx' in G) else
              'template<class P, class B> constexpr auto do_parse(const P& q, const B& b) { return q.parse(b); }',
             'template<size_t N> constexpr auto ce_parse(const char (&t)[N]) { return do_parse(p, cstring_buffer(t)); }']
    src = '\n'.join(lines).split('\n')
    linemap = {}
    for i, s in enumerate(inputs):
        src.append('#ifndef NOCE_%d' % i)
        src.append('constexpr auto r_%d = ce_parse(%s);' % (i, lit(s)))
        linemap[len(src)] = i
        src.append('#define HAVE_%d 1' % i)
        src.append('#endif')
    src.append(r'''
static long g_cases = 0, g_checks = 0, g_fail = 0, g_ce = 0, g_accept = 0; static std::string g_first;
static std::string show(const std::optional<int>& o) { return o ? std::to_string(*o) : std::string("empty"); }
template<class P, class PR, size_t N> static void run_case(int id, const P& pc, const PR& pr, const char (&text)[N], const std::optional<int>* ce) {
    ++g_cases;
    std::string s(text, N - 1);
    std::string big = s + " " + s + "\n" + s;   // the same text as a window into a longer buffer: nothing beyond the view may be read
    std::optional<int> r[7] = { do_parse(pc, cstring_buffer(text)), do_parse(pc, string_buffer(std::string(s))), do_parse(pc, string_view_buffer(std::string_view(s))),
                                do_parse(pr, cstring_buffer(text)), do_parse(pr, string_buffer(std::string(s))), do_parse(pr, string_view_buffer(std::string_view(s))),
                                do_parse(pc, string_view_buffer(std::string_view(big).substr(0, s.size()))) };
    static const char* names[7] = {"constexpr-parser/cstring", "constexpr-parser/string", "constexpr-parser/string_view", "runtime-parser/cstring", "runtime-parser/string", "runtime-parser/string_view", "constexpr-parser/string_view window into a longer text"};
    if (r[0]) ++g_accept;
    for (int k = 1; k < 7; ++k) { ++g_checks; if (r[k] != r[0]) { ++g_fail; if (g_first.empty()) g_first = "case " + std::to_string(id) + ": " + names[k] + " gives " + show(r[k]) + " but " + names[0] + " gives " + show(r[0]); } }
    if (ce) { ++g_ce; ++g_checks; if (*ce != r[0]) { ++g_fail; if (g_first.empty()) g_first = "case " + std::to_string(id) + ": constant evaluation gives " + show(*ce) + ", run time gives " + show(r[0]); } }
}
int main() {
    parser pr(PARSER_ARGS);''')
    for i, s in enumerate(inputs):
        src.append('#ifdef HAVE_%d' % i)
        src.append('    run_case(%d, p, pr, %s, &r_%d);' % (i, lit(s), i))
        src.append('#else')
        src.append('    run_case(%d, p, pr, %s, nullptr);' % (i, lit(s)))
        src.append('#endif')
    src.append(r'''    std::string esc; for (char c : g_first) { if (c == '"' || c == '\\') esc += '\\'; esc += c; }
    std::printf("{\"cases\": %ld, \"checks\": %ld, \"failures\": %ld, \"constant_evaluated\": %ld, \"accepted\": %ld, \"first_failure\": \"%s\"}\n", g_cases, g_checks, g_fail, g_ce, g_accept, esc.c_str());
    return g_fail ? 1 : 0;
}''')
    open(out, 'w').write('\n'.join(src) + '\n')
    json.dump({'lines': linemap, 'inputs': inputs}, open(mp, 'w'))

if __name__ == '__main__':
    main()
