#!/usr/bin/env python3
"""Emit the translation units that register E-GRAM frames (DESIGN 1.1).
usage: gram_frames.py <set> <outdir> <ntus>
A frame is (NT, T, arity vector, error positions, MaxC); sets are defined below."""
import sys, itertools, os

def vectors(R, L, W, minW=0):
    for v in itertools.product(range(L + 1), repeat=R):
        if minW <= sum(v) <= W:
            yield v

def frames_for(setname):
    fr = []   # (NT, T, arities, errs, maxc, seed[, off, noff])
    lift = [(0, 0)]
    def add(NT, T, v, errs=(), maxc=0):
        for (o, n) in lift:
            fr.append((NT, T, tuple(v), tuple(errs), maxc, False) + ((o, n) if (o, n) != (0, 0) else ()))
    def seed(NT, T, v, errs=(), maxc=0):
        fr.append((NT, T, tuple(v), tuple(errs), maxc, True))
    def plain(NT, T, R, L, W, maxc=0, minW=0):
        for v in vectors(R, L, W, minW):
            add(NT, T, v, (), maxc)
    def with_error(NT, T, R, L, W, two=False):
        for v in vectors(R, L, W):
            pos = [(i, j) for i in range(R) for j in range(v[i])]
            for p in pos:
                add(NT, T, v, (p,))
            if two:
                for p, q in itertools.combinations(pos, 2):
                    if p[0] != q[0]:
                        add(NT, T, v, (p, q))
    def custom(NT, T, R, L, W, err=False):
        for v in vectors(R, L, W):
            if not err:
                fr.append((NT, T, tuple(v), (), -1, False))
            else:
                for p in [(i, j) for i in range(R) for j in range(v[i])]:
                    fr.append((NT, T, tuple(v), (p,), -1, False))
    if setname in ('dev',):
        plain(2, 2, 1, 3, 3, maxc=5); plain(2, 2, 2, 3, 4, maxc=5)
        with_error(2, 2, 2, 3, 4)
    if setname in ('quick', 'thorough'):
        for R in (1, 2, 3):
            plain(2, 2, R, 3, 5, maxc=5)
        plain(2, 2, 4, 3, 5)
        with_error(2, 2, 1, 3, 3); with_error(2, 2, 2, 3, 4); with_error(2, 2, 3, 3, 4)
        with_error(2, 3, 1, 3, 3); with_error(2, 3, 2, 2, 3)   # a third terminal: sync token distinct from the other two
        with_error(1, 2, 2, 3, 5)                              # one nonterminal, longer rules: conflicts on a rule that ends in '... term error [N]'
        # seeds: the witnesses of repaired defects (DESIGN section 8)
        seed(4, 4, (1, 1, 2, 2, 3, 1), ()); seed(4, 4, (2, 1, 2, 2, 1), ())
        seed(2, 3, (0, 3, 3, 3, 1), ((2, 1),), 0)          # README error-recovery grammar shape
        seed(2, 3, (2, 2, 0, 2), ((1, 0),), 0)             # test-suite error-recovery grammar shape
        seed(2, 2, (5, 0), (), 3)                          # S -> A A A A x; A -> eps (stack capacity witness)
        plain(1, 3, 3, 3, 7, minW=0)                      # operator grammars for C05: E -> ... over 3 terms
        plain(2, 3, 3, 3, 5)
        custom(2, 2, 1, 3, 3); custom(2, 2, 2, 3, 4); custom(2, 2, 2, 2, 3, err=True)
        plain(2, 2, 5, 1, 4); plain(2, 2, 6, 1, 3)        # many short rules: rule order / sorting / slices beyond 4 rules
        # textbook shapes as seeds (with their single-symbol neighbourhoods): LR(1)-but-not-LALR(1), kernel-subset, expression grammar in every rule order
        seed(3, 3, (3, 3, 3, 3, 1, 1), ()); seed(3, 3, (1, 1, 3, 3, 3, 3), ()); seed(2, 3, (2, 3, 2, 1), ()); seed(2, 3, (1, 2, 3, 2), ())
        for v in sorted(set(itertools.permutations((3, 1, 3, 1)))): seed(2, 4, v, ())
        seed(3, 3, (2, 2, 2, 2, 2, 2), ())
        # dense ambiguous grammars with the error symbol (default-limit witnesses)
        seed(1, 1, (2, 3, 1, 1), ((3, 0),)); seed(1, 1, (2, 3, 1, 2), ((3, 1),)); seed(1, 2, (2, 3, 1, 1), ((3, 0),)); seed(1, 1, (3, 2, 1, 1), ((2, 0),)); seed(1, 1, (2, 1, 1), ((2, 0),)); seed(1, 1, (3, 1, 1), ((2, 0),)); seed(2, 1, (2, 3, 1, 1), ((3, 0),))
    if setname == 'big':   # medium-size frames explored by a fixed strided corpus (DESIGN 12.7j): shapes beyond the exhaustive bounds
        add(4, 3, (2, 1, 3, 0, 2, 1, 3, 1)); add(5, 3, (1, 2, 2, 0, 3, 1, 2, 0, 1, 2)); add(3, 4, (3, 3, 1, 2, 0, 2, 1)); add(4, 4, (2, 2, 2, 1, 1, 0, 3, 3, 1))
        add(4, 3, (2, 1, 3, 0, 2, 3, 1), ((5, 1),)); add(3, 3, (2, 0, 3, 1, 2, 4), ((2, 1),)); add(2, 4, (3, 3, 3, 3, 1, 2, 1)); add(6, 2, (1, 1, 2, 2, 1, 0, 2, 1, 1, 2, 0))
    if setname == 'big':   # realistic grammars (JSON, layered expression grammar, operator grammar with 3 precedence levels, statements with recovery)
        seed(6, 11, (1, 1, 1, 1, 1, 1, 1, 2, 3, 1, 3, 3, 2, 3, 1, 3), ())
        seed(6, 9, (3, 3, 1, 3, 3, 1, 2, 1, 3, 1, 4, 0, 1, 1, 3), ())
        seed(1, 8, (3, 3, 3, 3, 3, 2, 3, 1), ())
        seed(3, 9, (0, 2, 4, 3, 5, 2, 1, 3), ((5, 0),))
    if setname == 'lift':
        # lifted frames (see gram_frame.hpp): the same enumerations with every real symbol index shifted past a 64-bit (128-bit) word boundary.
        # T=2: a=61 b=62 <eof>=63 error=64 ; T=3: a=61 b=62 c=63 <eof>=64 error=65 ; nonterminals N0=63 N1=64 ##=65 ; second pair around 128
        lift[:] = [(61, 0), (0, 63)]
        for R in (1, 2, 3):
            plain(2, 2, R, 3, 5 if R < 3 else 4)
        with_error(2, 2, 1, 3, 3); with_error(2, 2, 2, 2, 3)
        lift[:] = [(125, 62)]
        plain(2, 2, 1, 3, 3); plain(2, 2, 2, 3, 4); with_error(2, 2, 2, 2, 2)
        lift[:] = [(61, 0)]
        plain(1, 3, 3, 3, 6, minW=0)
        plain(2, 3, 2, 3, 4); with_error(2, 3, 2, 2, 3)
        lift[:] = [(0, 0)]
    if setname == 'thorough':
        custom(2, 2, 3, 3, 4); custom(2, 3, 2, 3, 4); custom(2, 2, 2, 3, 4, err=True)
        plain(3, 2, 3, 3, 6); plain(3, 2, 4, 2, 5)
        plain(2, 3, 4, 3, 5)
        plain(2, 2, 5, 2, 5)
        plain(1, 3, 4, 3, 8, minW=6)
        with_error(2, 3, 2, 3, 5); with_error(2, 3, 3, 3, 4); with_error(2, 2, 3, 3, 5, two=False); with_error(2, 2, 4, 2, 4)
        with_error(2, 2, 2, 3, 5, two=True)
    # de-duplicate, keep order
    seen = set(); out = []
    for f in fr:
        k = f[:4] + (f[4] < 0,) + f[6:]
        if k in seen: continue
        seen.add(k); out.append(f)
    return out

def main():
    setname, outdir, ntus = sys.argv[1], sys.argv[2], int(sys.argv[3])
    fr = frames_for(setname)
    os.makedirs(outdir, exist_ok=True)
    tus = [[] for _ in range(ntus)]
    # balance by a rough cost estimate (rule count + symbols)
    cost = [0] * ntus
    for f in sorted(fr, key=lambda f: -(len(f[2]) + sum(f[2]) + 3 * f[4])):
        k = cost.index(min(cost)); tus[k].append(f); cost[k] += 2 + len(f[2]) + sum(f[2]) + 3 * f[4]
    order = {f[:4] + (f[4] < 0,) + f[6:]: i for i, f in enumerate(fr)}
    for k, lst in enumerate(tus):
        with open(os.path.join(outdir, 'frames_%02d.cpp' % k), 'w') as o:
            o.write('#include "gram_frame.hpp"\nnamespace {\n')
            for f in lst:
                NT, T, v, errs, maxc, is_seed = f[:6]
                liftargs = (', %d, %d' % f[6:]) if len(f) > 6 else ''
                ar = ', '.join(str(x) for x in v)
                er = ', '.join(str(i * 8 + j) for (i, j) in errs)
                o.write('eg::Register' + ('Seed' if is_seed else '') + '<eg::Frame<%d, %d, std::integer_sequence<int%s>, std::integer_sequence<int%s>, %d%s>> r%d;\n'
                        % (NT, T, (', ' + ar) if v else '', (', ' + er) if errs else '', maxc, liftargs, order[f[:4] + (f[4] < 0,) + f[6:]]))
            o.write('}\n')
    print(len(fr))

if __name__ == '__main__':
    main()
