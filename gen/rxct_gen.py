#!/usr/bin/env python3
"""Conformance replays for the regex builder (DESIGN 1.6): every listed pattern becomes a `constexpr regex::expr<P>`
(the path users compile: cstring_buffer, dfa_builder<dfa_size>, constant evaluation); the program dumps the automata in
the canonical text form of engines/dfa_dump.hpp so they can be compared with the run-time built ones.
usage: rxct_gen.py <patterns.txt> <outdir> <ntus>"""
import sys, os, json
def main():
    pats = [l.rstrip('\n') for l in open(sys.argv[1]) if l.strip()]
    outdir, ntus = sys.argv[2], int(sys.argv[3])
    os.makedirs(outdir, exist_ok=True)
    per = (len(pats) + ntus - 1) // ntus
    for k in range(ntus):
        chunk = pats[k * per:(k + 1) * per]
        src = ['#include <ctpg/ctpg.hpp>', '#include "dfa_dump.hpp"']
        linemap = {}
        for i, p in enumerate(chunk):
            assert ')~"' not in p
            src.append('constexpr char p_%d[] = R"~(%s)~"; constexpr ctpg::regex::expr<p_%d> r_%d;' % (i, p, i, i))
            linemap[len(src)] = p
        src.append('int main() {')
        for i, p in enumerate(chunk):
            src.append('    dump_dfa(p_%d, r_%d.sm, (long)ctpg::regex::expr<p_%d>::dfa_size);' % (i, i, i))
        src.append('    return 0; }')
        open(os.path.join(outdir, 'rxct_%02d.cpp' % k), 'w').write('\n'.join(src) + '\n')
        json.dump(linemap, open(os.path.join(outdir, 'rxct_%02d.map.json' % k), 'w'))
    print(len(pats))
if __name__ == '__main__':
    main()
