#!/usr/bin/env python3
"""E-CT generator for C12 (c): user-supplied limits around the real state / item counts.
 phase 1:  c12_gen.py probe <grammar> <out.cpp>            -> program printing the real counts with default limits
 phase 2:  c12_gen.py limits <grammar> <N> <M> <out.cpp>   -> program building the parser with every cap in need-2..need+1
The programs are compiled with -DCTPG_VERIF: the cvector hook turns a silent overrun into an observable event."""
import sys

GRAMMARS = {
 'expr': dict(inputs=['', '1', '1+2', '1+2*1', '(1)', '1+', '((2))*2', '2*(1+1)+1'], code=r'''
constexpr nterm<int> expr("expr");
constexpr char_term o_plus('+', 1, associativity::ltor);
constexpr char_term o_mul('*', 2, associativity::ltor);
#define PARSER_ARGS expr, terms('1', '2', o_plus, o_mul, '(', ')'), nterms(expr), rules( \
        expr('1') >= val(1), expr('2') >= val(2), \
        expr(expr, '+', expr) >= [](int a, skip, int b){ return a + b; }, \
        expr(expr, '*', expr) >= [](int a, skip, int b){ return a * b; }, \
        expr('(', expr, ')') >= _e2)'''),
 'recovery': dict(inputs=['', ';', 'xx;', 'xyx;', 'y;', 'xxy', 'x;;', 'yy;x'], code=r'''
constexpr nterm<int> root("root"); constexpr nterm<int> list("list");
#define PARSER_ARGS root, terms('x', ';', 'y'), nterms(root, list), rules( \
        root(list, ';') >= _e1, root(error, ';') >= val(-1), list() >= val(0), \
        list(list, 'x') >= [](int sum, skip){ return sum + 1; })'''),
 'numbers': dict(inputs=['', '1', '10,2', '1,,2', '01', '12,305,7', '1 , 2', ','], code=r'''
constexpr int to_int(std::string_view sv) { int sum = 0; for (auto c : sv) { sum *= 10; sum += c - '0'; } return sum; }
constexpr char number_pattern[] = "[1-9][0-9]*";
constexpr regex_term<number_pattern> number("number");
constexpr nterm<int> list("list");
#define PARSER_ARGS list, terms(',', number), nterms(list), rules( \
        list(number) >= to_int, \
        list(list, ',', number) >= [](int sum, skip, const auto& n){ return sum + to_int(n); })'''),
 'nulltail': dict(inputs=['', 'ca', 'caa', 'caaa', 'caaaa', 'c', 'a', 'cab'], code=r'''
constexpr nterm<int> R("R"); constexpr nterm<int> X("X"); constexpr nterm<int> N("N");
#define PARSER_ARGS R, terms('a', 'c'), nterms(R, X, N), rules( \
        R(X, 'a') >= [](int x, skip){ return x; }, \
        X('c', N, N) >= [](skip, int a, int b){ return a * 10 + b; }, \
        N('a') >= val(1), N() >= val(0))'''),
 'anychar': dict(inputs=['', 'x', '#', '#abc', 'x#y', '##', 'x y', '# x'], code=r'''
constexpr char any_pattern[] = "."; constexpr regex_term<any_pattern> any("any");
constexpr char rest_pattern[] = "#[^x]*"; constexpr regex_term<rest_pattern> rest("rest");
constexpr nterm<int> list("list");
#define PARSER_ARGS list, terms(rest, any), nterms(list), rules( \
        list() >= val(0), \
        list(list, any) >= [](int n, skip){ return n + 1; }, \
        list(list, rest) >= [](int n, const auto& r){ return n + 100 * int(r.get_value().size()); })'''),
 'anyonly': dict(inputs=['', 'x', '#', 'abc', 'x y', 'a b c d'], code=r'''
constexpr char dot_pattern[] = "."; constexpr regex_term<dot_pattern> dot("dot");
constexpr nterm<int> cnt("cnt");
#define PARSER_ARGS cnt, terms(dot), nterms(cnt), rules( \
        cnt() >= val(0), \
        cnt(cnt, dot) >= [](int n, skip){ return n + 1; })'''),
 'nullable': dict(inputs=['', 'a', 'ab', 'b', 'aab', 'ba', 'abb', 'c'], code=r'''
constexpr nterm<int> S("S"); constexpr nterm<int> A("A"); constexpr nterm<int> B("B");
#define PARSER_ARGS S, terms('a', 'b'), nterms(S, A, B), rules( \
        S(A, B) >= [](int a, int b){ return a * 10 + b; }, \
        A() >= val(0), A(A, 'a') >= [](int n, skip){ return n + 1; }, \
        B() >= val(0), B('b', B) >= [](skip, int n){ return n + 1; })'''),
}

HEAD = r'''#include <ctpg/ctpg.hpp>
#include <cstdio>
#include <sstream>
#include <string>
#include <memory>
#include <vector>
struct HookHit { const char* what; };
namespace ctpg_verif { void bounds_violation(const char* what, std::size_t, std::size_t) { throw HookHit{what}; } }
using namespace ctpg; using namespace ctpg::ftors; using namespace ctpg::buffers;
'''

COMMON = r'''
static std::string strip(const std::string& d) {   // drop the lines that legitimately depend on the limits
    std::istringstream in(d); std::string l, o;
    while (std::getline(in, l)) { if (l.rfind("Parser object size", 0) == 0) continue; size_t c = l.find("(cap: "); if (c != std::string::npos) l = l.substr(0, c); o += l + "\n"; }
    return o;
}
template<class P> static std::string behaviour(const P& p) {
    std::ostringstream d; p.write_diag_str(d);
    std::string o = strip(d.str()) + "\n--\n";
    for (const char* in : INPUTS) { std::ostringstream es; auto r = p.parse(string_buffer(in), es); o += std::string(in) + " => " + (r ? std::to_string(*r) : std::string("empty")) + " | " + es.str() + "\n"; }
    return o;
}
'''

def inputs_decl(g):
    return 'static const char* INPUTS[] = {' + ', '.join('"%s"' % s for s in GRAMMARS[g]['inputs']) + '};\n'

def probe(g, out):
    src = HEAD + GRAMMARS[g]['code'] + '\n' + inputs_decl(g) + COMMON + r'''
int main() {
    auto* p = new parser(PARSER_ARGS);
    std::ostringstream d; p->write_diag_str(d); std::string t = d.str(); delete p;
    long n = -1, m = -1; size_t a = t.find("Number of states: "); if (a != std::string::npos) n = std::atol(t.c_str() + a + 18);
    size_t b = t.find("Max number of situations per state: "); if (b != std::string::npos) m = std::atol(t.c_str() + b + 36);
    std::printf("%ld %ld\n", n, m);
    return 0;
}'''
    open(out, 'w').write(src)

def limits(g, N, M, out):
    cases = []
    for x in range(max(N - 2, 1), N + 2): cases.append((x, M + 10, 'state_count_cap=%d (need %d)' % (x, N)))
    for y in range(max(M - 2, 1), M + 2): cases.append((N + 10, y, 'max_sit_count_per_state_cap=%d (need %d)' % (y, M)))
    src = HEAD + GRAMMARS[g]['code'] + '\n' + inputs_decl(g) + COMMON
    for i, (x, y, _) in enumerate(cases):
        src += 'struct Lim%d { static const size_t state_count_cap = %d; static const size_t max_sit_count_per_state_cap = %d; };\n' % (i, x, y)
    src += r'''
static long g_cases = 0, g_checks = 0, g_fail = 0, g_rejected = 0, g_built = 0; static std::string g_first;
template<class Lim> static void run_case(const char* label, bool sufficient, const std::string& want) {
    ++g_cases;
    std::string got; const char* outcome = "built";
    try {
        auto* p = new parser(PARSER_ARGS, use_generated_lexer{}, Lim{});
        got = behaviour(*p); delete p;
    } catch (const HookHit& h) { outcome = "silent-overrun"; got = h.what; }
    catch (const std::exception& e) { outcome = "rejected"; got = e.what(); }
    ++g_checks;
    std::string o(outcome);
    if (o == "silent-overrun") { ++g_fail; if (g_first.empty()) g_first = std::string(label) + ": a fixed-capacity container was overrun (" + got + ") instead of the construction being rejected"; }
    else if (o == "rejected") { ++g_rejected; if (sufficient) { ++g_fail; if (g_first.empty()) g_first = std::string(label) + ": sufficient limits were rejected: " + got; } }
    else { ++g_built; if (got != want) { ++g_fail; if (g_first.empty()) g_first = std::string(label) + ": the parser built with these limits behaves differently from the one built with default limits"; } }
}
int main() {
    std::string want;
    { auto* p = new parser(PARSER_ARGS); want = behaviour(*p); delete p; }
'''
    for i, (x, y, label) in enumerate(cases):
        src += '    run_case<Lim%d>("%s", %s, want);\n' % (i, label, 'true' if (x >= N and y >= M) else 'false')
    src += r'''    std::string esc; for (char c : g_first) { if (c == '"' || c == '\\') esc += '\\'; else if (c == '\n') { esc += ' '; continue; } esc += c; }
    std::printf("{\"cases\": %ld, \"checks\": %ld, \"failures\": %ld, \"rejected\": %ld, \"built\": %ld, \"first_failure\": \"%s\"}\n", g_cases, g_checks, g_fail, g_rejected, g_built, esc.c_str());
    return g_fail ? 1 : 0;
}'''
    open(out, 'w').write(src)

if __name__ == '__main__':
    if sys.argv[1] == 'probe': probe(sys.argv[2], sys.argv[3])
    elif sys.argv[1] == 'limits': limits(sys.argv[2], int(sys.argv[3]), int(sys.argv[4]), sys.argv[5])
    elif sys.argv[1] == 'list': print(' '.join(GRAMMARS))
