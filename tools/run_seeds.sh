#!/bin/bash
# run a list of "PROP:k" seeds, 3 at a time; output to build/seedlog.txt
cd /verif
printf '%s\n' "$@" | xargs -P 3 -I{} bash -c 'x={}; tools/try_seed.sh ${x%%:*} ${x##*:} 2>&1 | cut -c1-400' >> build/seedlog.txt 2>&1
echo "BATCH DONE $*" >> build/seedlog.txt
