#!/bin/bash
# run every claimed check at the given tier (default quick); prints one line per check
cd "$(dirname "$0")/.."; tier=${1:-quick}
for p in $(python3 -c "import json; print(' '.join(c['property_id'] for c in json.load(open('MANIFEST.json'))['checks']))"); do
  s=$(date +%s); out=$(./check $p --tier $tier 2>&1); rc=$?; e=$(( $(date +%s) - s ))
  echo "$p rc=$rc ${e}s $(echo "$out" | grep -c '^VIOLATION') violations, $(echo "$out" | grep -c '^KNOWN-FINDING') known; $(echo "$out" | grep -A3 -E '^(HARNESS|VIOLATION)' | head -4 | tr '\n' ' ' | cut -c1-600)"
done
