#!/bin/bash
# Evaluate one seeded change produced by a sub-agent.
#   tools/try_seed.sh <PROP> <k> [checks...]       (default check: PROP, tier quick; append :thorough for the thorough tier)
# 1. in a fresh scratch worktree of /repo (/tmp/seedwt_<PROP><k>, removed afterwards): apply patch, build + run the 56 tests, compile/run the demo with and without the patch
# 2. run the listed checks against the patched worktree (VERIF_REPO override; /repo itself is not touched)
# 3. record everything under /verif/seeded/<PROP>-<k>/
set -u
P=$1; K=$2; shift 2
CHECKS=("$@"); [ ${#CHECKS[@]} -eq 0 ] && CHECKS=("$P")
SRC=/tmp/wt_$P/_out/$K; OUT=/verif/seeded/$P-$K
[ -f $SRC/patch.diff ] || SRC=$OUT
[ -f $SRC/patch.diff ] || { echo "no patch at $SRC"; exit 2; }
WT=/tmp/seedwt_$P$K; git -C /repo worktree remove --force $WT >/dev/null 2>&1; rm -rf $WT
git -C /repo worktree add -q --detach $WT HEAD || exit 2
mkdir -p $OUT; [ $SRC != $OUT ] && { cp $SRC/patch.diff $SRC/demo.cpp $OUT/; cp $SRC/meta.txt $OUT/agent_meta.txt 2>/dev/null; }
cd $WT && git checkout -q -- . && git apply --check $SRC/patch.diff || { echo "patch does not apply"; exit 2; }
DEMOFLAGS="-std=c++17 -pthread -I$WT/include"; CXX=g++
grep -q "fsanitize" $OUT/agent_meta.txt 2>/dev/null && { CXX=clang++; DEMOFLAGS="$DEMOFLAGS -g -fsanitize=address,undefined -fno-sanitize-recover=all"; }
# demo without the change
$CXX $DEMOFLAGS $SRC/demo.cpp -o /tmp/demo_$P$K.clean 2>/tmp/demo_$P$K.err; CLEAN_COMPILE=$?
if [ $CLEAN_COMPILE -eq 0 ]; then timeout 120 /tmp/demo_$P$K.clean >/tmp/demo_$P$K.out 2>&1; CLEAN_RC=$?; else CLEAN_RC=-1; fi
git apply $SRC/patch.diff
$CXX $DEMOFLAGS $SRC/demo.cpp -o /tmp/demo_$P$K.mut 2>/tmp/demo_$P$K.err2; MUT_COMPILE=$?
if [ $MUT_COMPILE -eq 0 ]; then timeout 120 /tmp/demo_$P$K.mut >/tmp/demo_$P$K.out2 2>&1; MUT_RC=$?; else MUT_RC=-1; fi
# test-suite with the change
rm -rf $WT/_b; cmake -G Ninja -S $WT -B $WT/_b -DCMAKE_BUILD_TYPE=RelWithDebInfo -DCMAKE_CXX_FLAGS=-Wno-error >/dev/null 2>&1 && cmake --build $WT/_b >/tmp/demo_$P$K.build 2>&1
TESTS=$(ctest --test-dir $WT/_b -j8 2>&1 | grep -E "tests passed|tests failed" | head -1)
rm -rf $WT/_b
echo "seed $P-$K: demo clean rc=$CLEAN_RC (compile $CLEAN_COMPILE), with change rc=$MUT_RC (compile $MUT_COMPILE); suite: $TESTS"
RESULTS=""
for c in "${CHECKS[@]}"; do
  id=${c%%:*}; tier=quick; [[ "$c" == *:thorough ]] && tier=thorough
  S=/verif/build/seedrun-$P-$K-$id; rm -rf $S; mkdir -p $S
  ( cd /verif && VERIF_REPO=$WT VERIF_SCRATCH_OUT=$S ./check $id --tier $tier > $S/out.txt 2>&1 ); rc=$?
  nv=$(grep -c "^VIOLATION" $S/out.txt)
  first=$(grep -A1 "^VIOLATION" $S/out.txt | sed -n 2p | cut -c1-300)
  echo "   check $id ($tier): exit $rc, $nv VIOLATION lines; $first"
  RESULTS="$RESULTS{\"check\":\"$id\",\"tier\":\"$tier\",\"exit\":$rc,\"violation_lines\":$nv},"
  cp $S/out.txt $OUT/check_${id}_$tier.txt; rm -rf $S
done
cd /verif; git -C /repo worktree remove --force $WT >/dev/null 2>&1; rm -rf $WT
python3 - "$OUT" "$P" "$K" "$CLEAN_RC" "$MUT_RC" "$MUT_COMPILE" "$TESTS" "[${RESULTS%,}]" <<'PY'
import sys, json, os
out, p, k, crc, mrc, mcomp, tests, res = sys.argv[1:9]
meta = {'property': p, 'seed': k, 'demo_exit_without_change': int(crc), 'demo_exit_with_change': int(mrc), 'demo_compiles_with_change': int(mcomp) == 0,
        'test_suite_with_change': tests, 'checks_run': json.loads(res),
        'what_it_needs': open(os.path.join(out, 'agent_meta.txt')).read() if os.path.exists(os.path.join(out, 'agent_meta.txt')) else '',
        'how_run': 'tools/try_seed.sh: patch applied in a scratch worktree of /repo, suite built and run there, demo compiled with and without the patch, checks run with VERIF_REPO pointing at the patched worktree'}
json.dump(meta, open(os.path.join(out, 'meta.json'), 'w'), indent=1)
PY
rm -f /tmp/demo_$P$K.*
