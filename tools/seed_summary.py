#!/usr/bin/env python3
"""Writes seeded/SUMMARY.md from the meta.json files written by tools/try_seed.sh"""
import json, glob, os, re
rows = []
for d in sorted(glob.glob('/verif/seeded/*/')):
    mp = os.path.join(d, 'meta.json')
    if not os.path.exists(mp): rows.append((os.path.basename(d[:-1]), '?', '?', '?', 'not evaluated')); continue
    m = json.load(open(mp))
    what = (m.get('what_it_needs') or '').strip().splitlines()
    first = next((l.strip() for l in what if l.strip()), '')[:140]
    checks = ', '.join('%s(%s): %s' % (c['check'], c['tier'], 'VIOLATION' if c['exit'] == 1 else 'silent' if c['exit'] == 0 else 'harness error') for c in m['checks_run'])
    rows.append((os.path.basename(d[:-1]), m['test_suite_with_change'].replace('100% tests passed, 0 tests failed out of 56', '56/56 pass'), 'fails' if m['demo_exit_with_change'] != 0 else 'passes', 'passes' if m['demo_exit_without_change'] == 0 else 'fails', checks, first))
with open('/verif/seeded/SUMMARY.md', 'w') as f:
    f.write('# Seeded changes\n\nEach directory holds `patch.diff` (applies to the /repo tree it was evaluated on), `demo.cpp` (the author\'s demonstration), `agent_meta.txt` (the author\'s notes) and `meta.json` (what `tools/try_seed.sh` ran and saw).\n\n')
    f.write('| seed | suite with change | demo with / without change | checks | change |\n|---|---|---|---|---|\n')
    for r in rows:
        if len(r) == 5: f.write('| %s | %s | %s | %s | %s |\n' % r)
        else: f.write('| %s | %s | %s / %s | %s | %s |\n' % (r[0], r[1], r[2], r[3], r[4], r[5].replace('|', '/')))
print(len(rows), 'seeds')
