// C13: context_parse hands the caller's context to exactly the contextual functors (black box, compiled DSL).
// One 4-rule grammar in all 16 assignments of '>=' / '>>=' x 4 context categories x every input up to a bound.
#include <ctpg/ctpg.hpp>
#include "../ref/lr1.hpp"
#include <cstdio>
#include <cstdlib>
#include <sstream>
#include <string>
#include <vector>

using namespace ctpg;
using namespace ctpg::buffers;

struct Ctx {
    int counter = 0; bool moved_from = false; int serial;
    explicit Ctx(int s) : serial(s) {}
    Ctx(const Ctx&) = delete;
    Ctx(Ctx&& o) noexcept : counter(o.counter), serial(o.serial) { o.moved_from = true; }
};

struct Call { int rule; int nargs; bool has_ctx; const void* addr; bool is_const; bool is_lvalue; int counter_seen; bool moved_from; int serial; };
static std::vector<Call> g_calls;

template<class T> struct is_ctx : std::false_type {}; template<> struct is_ctx<Ctx> : std::true_type {};
static int value_of(int rule, int n) { return rule == 1 ? 0 : rule == 2 ? n * 3 + 1 : rule == 3 ? n * 3 + 2 : n; }

template<int K> struct NF {   // attached with '>=': must never see a context
    template<class... A> int operator()(A&&... a) const {
        g_calls.push_back(Call{K, int(sizeof...(A)), false, nullptr, false, false, -1, false, -1});
        int first = 0; if constexpr (sizeof...(A) > 0) { auto t = std::forward_as_tuple(a...); if constexpr (std::is_convertible_v<std::tuple_element_t<0, decltype(t)>, int>) first = std::get<0>(t); }
        return value_of(K, first);
    }
};
template<int K> struct CF {   // attached with '>>=': first argument is the context
    template<class C, class... A> int operator()(C&& ctx, A&&... a) const {
        using B = std::remove_reference_t<C>;
        Call c{K, int(sizeof...(A)), true, static_cast<const void*>(std::addressof(ctx)), std::is_const_v<B>, std::is_lvalue_reference_v<C&&>, -1, false, -1};
        if constexpr (is_ctx<std::remove_const_t<B>>::value) { c.counter_seen = ctx.counter; c.moved_from = ctx.moved_from; c.serial = ctx.serial; if constexpr (!std::is_const_v<B>) ctx.counter++; }
        g_calls.push_back(c);
        int first = 0; if constexpr (sizeof...(A) > 0) { auto t = std::forward_as_tuple(a...); if constexpr (std::is_convertible_v<std::tuple_element_t<0, decltype(t)>, int>) first = std::get<0>(t); }
        return value_of(K, first);
    }
};

constexpr nterm<int> S("S"); constexpr nterm<int> L("L");
template<bool Ctxl, int K, class R> constexpr auto attach(R r) { if constexpr (Ctxl) return r >>= CF<K>{}; else return r >= NF<K>{}; }
template<unsigned M> constexpr auto make_parser() {
    return parser(S, terms('a', 'b'), nterms(S, L), rules(
        attach<(M & 1) != 0, 0>(S(L)), attach<(M & 2) != 0, 1>(L()),
        attach<(M & 4) != 0, 2>(L(L, 'a')[1]),        // explicit precedence given before the functor is attached
        attach<(M & 8) != 0, 3>(L(L, 'b'))[2]));        // ... and after: neither order may lose the functor's kind
}

static long g_checks = 0, g_fail = 0, g_cases = 0; static std::string g_first; static long g_ctx_calls = 0;
static void fail(unsigned mask, const char* cat, const std::string& in, const std::string& what) { ++g_fail; if (g_first.empty()) { char b[64]; std::snprintf(b, sizeof b, "mask=%u ctx=%s input='", mask, cat); g_first = std::string(b) + in + "': " + what; } }

struct Expect { bool ok; int value; std::vector<int> reductions; };
static Expect expect_for(const std::string& in) {
    static ref::Gram g; static ref::LR1 lr; static bool init = false;
    if (!init) { init = true; g.NT = 2; g.T = 2; g.R = 4; g.lhs[0] = 0; g.n[0] = 1; g.rhs[0][0] = 1; g.lhs[1] = 1; g.n[1] = 0; g.lhs[2] = 1; g.n[2] = 2; g.rhs[2][0] = 1; g.rhs[2][1] = ref::TERM; g.lhs[3] = 1; g.n[3] = 2; g.rhs[3][0] = 1; g.rhs[3][1] = ref::TERM + 1; g.finish(); lr = ref::build_lr1(g, ref::analyse(g), false); if (!lr.conflict_free()) { std::printf("harness error\n"); std::exit(2); } }
    std::vector<ref::Tok> toks; bool lexfail = false;
    for (size_t i = 0; i < in.size(); ++i) { if (in[i] == 'a' || in[i] == 'b') toks.push_back(ref::Tok{in[i] - 'a', (int)i, 1}); else { lexfail = true; break; } }
    ref::Run r = ref::drive(g, ref::RefTable{lr}, toks, 4000, lexfail);
    Expect e{r.ok, 0, r.reductions};
    int v = 0; for (char c : in) { if (c == 'a') v = v * 3 + 1; else if (c == 'b') v = v * 3 + 2; }
    e.value = v; return e;
}

template<unsigned M> static void run_mask(const std::vector<std::string>& inputs) {
    static const auto p = make_parser<M>();
    for (const std::string& in : inputs) {
        Expect ex = expect_for(in);
        auto judge = [&](const char* cat, const std::optional<int>& res, const void* want_addr, bool want_const, bool want_lvalue, bool is_real_ctx, bool counts) {
            ++g_cases;
            ++g_checks; if (res.has_value() != ex.ok) { fail(M, cat, in, "wrong acceptance"); return; }
            ++g_checks; if (ex.ok && *res != ex.value) { fail(M, cat, in, "wrong value " + std::to_string(*res)); return; }
            ++g_checks; if (g_calls.size() != ex.reductions.size()) { fail(M, cat, in, "number of functor calls " + std::to_string(g_calls.size()) + " != reductions " + std::to_string(ex.reductions.size())); return; }
            int seen = 0; const void* stable = nullptr; static const int arity[4] = {1, 0, 2, 2};
            for (size_t k = 0; k < g_calls.size(); ++k) {
                const Call& c = g_calls[k]; int r = ex.reductions[k]; bool ctxl = (M >> r) & 1;
                ++g_checks;
                if (c.rule != r) { fail(M, cat, in, "call " + std::to_string(k) + " is rule " + std::to_string(c.rule) + ", reduction order says " + std::to_string(r)); return; }
                if (c.has_ctx != ctxl) { fail(M, cat, in, "rule " + std::to_string(r) + (ctxl ? " did not receive" : " received") + " a context"); return; }
                if (c.nargs != arity[r]) { fail(M, cat, in, "rule " + std::to_string(r) + " got " + std::to_string(c.nargs) + " value arguments"); return; }
                if (!ctxl) continue;
                ++g_ctx_calls;
                if (!stable) stable = c.addr;
                if (c.addr != stable) { fail(M, cat, in, "context address changes between calls"); return; }
                if (want_addr && c.addr != want_addr) { fail(M, cat, in, "context is not the caller's object"); return; }
                if (is_real_ctx) {
                    if (c.is_const != want_const) { fail(M, cat, in, "constness of the context not preserved"); return; }
                    if (c.is_lvalue != want_lvalue) { fail(M, cat, in, "value category of the context not preserved"); return; }
                    if (c.moved_from) { fail(M, cat, in, "functor saw a moved-from context"); return; }
                    if (counts && c.counter_seen != seen) { fail(M, cat, in, "mutation by an earlier functor not visible (counter " + std::to_string(c.counter_seen) + ", expected " + std::to_string(seen) + ")"); return; }
                    if (!counts && c.counter_seen != 0) { fail(M, cat, in, "const context was modified"); return; }
                    ++seen;
                }
            }
            return;
        };
        int nctx = 0; for (int r : ex.reductions) if ((M >> r) & 1) ++nctx;
        { g_calls.clear(); Ctx c(1); auto r = p.context_parse(c, string_buffer(in.c_str())); judge("lvalue", r, &c, false, true, true, true);
          ++g_checks; if (c.counter != nctx) fail(M, "lvalue", in, "caller does not see the functors' mutations"); ++g_checks; if (c.moved_from) fail(M, "lvalue", in, "caller's context was moved from"); }
        { g_calls.clear(); const Ctx c(2); auto r = p.context_parse(c, string_buffer(in.c_str())); judge("const-lvalue", r, &c, true, true, true, false); }
        { g_calls.clear(); auto r = p.context_parse(Ctx(3), string_buffer(in.c_str())); judge("prvalue", r, nullptr, false, false, true, true); }
        { g_calls.clear(); Ctx c(4); auto r = p.context_parse(std::move(c), string_buffer(in.c_str())); judge("moved-lvalue", r, &c, false, false, true, true);
          ++g_checks; if (c.counter != nctx || c.moved_from) fail(M, "moved-lvalue", in, "move-only context was consumed or mutations lost"); }
        { g_calls.clear(); std::ostringstream es; Ctx c(5); auto r = p.context_parse(c, parse_options{}, string_buffer(in.c_str()), es); judge("lvalue+options+stream", r, &c, false, true, true, true); }
        { g_calls.clear(); std::ostringstream es; Ctx c(6); auto r = p.context_parse(c, string_buffer(in.c_str()), es); judge("lvalue+stream", r, &c, false, true, true, true);
          ++g_checks; if (c.counter != nctx) fail(M, "lvalue+stream", in, "caller does not see the functors' mutations (3-argument overload)"); }
        { g_calls.clear(); std::ostringstream es; const Ctx c(7); auto r = p.context_parse(c, string_buffer(in.c_str()), es); judge("const-lvalue+stream", r, &c, true, true, true, false); }
        { g_calls.clear(); std::ostringstream es; Ctx c(8); auto r = p.context_parse(std::move(c), parse_options{}, string_buffer(in.c_str()), es); judge("moved-lvalue+options+stream", r, &c, false, false, true, true); }
        { g_calls.clear(); auto r = p.parse(string_buffer(in.c_str())); judge("parse()", r, nullptr, false, false, false, false); }
        { g_calls.clear(); std::ostringstream es; auto r = p.parse(string_buffer(in.c_str()), es); judge("parse()+stream", r, nullptr, false, false, false, false); }
    }
}
template<unsigned... M> static void run_all(const std::vector<std::string>& inputs, std::integer_sequence<unsigned, M...>) { (run_mask<M>(inputs), ...); }

// ---------------------------------------------------------------- second grammar: arities 0, 1, 3 and 5, a typed term, an error rule, verbose call forms
// doc -> items ; items -> eps | items item ';' | items error ';' ; item -> 'a' 'b' 'a' 'b' 'a' | num        (num: typed term, its functor is never contextual)
static long g_term_ftor_calls = 0; static bool g_term_ftor_saw_ctx = false;
struct NumF { int operator()(std::string_view) const { ++g_term_ftor_calls; return 7; } template<class C> int operator()(C&&, std::string_view) const { g_term_ftor_saw_ctx = true; return 7; } };
template<int K> struct NF2 { template<class... A> int operator()(A&&...) const { g_calls.push_back(Call{K, int(sizeof...(A)), false, nullptr, false, false, -1, false, -1}); return K; } };
template<int K> struct CF2 {
    template<class C, class... A> int operator()(C&& ctx, A&&...) const {
        using B = std::remove_reference_t<C>;
        Call c{K, int(sizeof...(A)), true, static_cast<const void*>(std::addressof(ctx)), std::is_const_v<B>, std::is_lvalue_reference_v<C&&>, -1, false, -1};
        if constexpr (is_ctx<std::remove_const_t<B>>::value) { c.counter_seen = ctx.counter; c.moved_from = ctx.moved_from; c.serial = ctx.serial; if constexpr (!std::is_const_v<B>) ctx.counter++; }
        g_calls.push_back(c); return K;
    }
};
constexpr nterm<int> doc2("doc"); constexpr nterm<int> items2("items"); constexpr nterm<int> item2("item");
constexpr char num2_pattern[] = "n+";
template<bool Ctxl, int K, class R> constexpr auto attach2(R r) { if constexpr (Ctxl) return r >>= CF2<K>{}; else return r >= NF2<K>{}; }
template<unsigned M> static auto make_parser2() {
    static const typed_term num2(regex_term<num2_pattern>("num"), NumF{});
    return parser(doc2, terms('a', 'b', ';', num2), nterms(doc2, items2, item2), rules(
        attach2<(M & 1) != 0, 0>(doc2(items2)), attach2<(M & 2) != 0, 1>(items2()), attach2<(M & 4) != 0, 2>(items2(items2, item2, ';')),
        attach2<(M & 8) != 0, 3>(items2(items2, error, ';')), attach2<(M & 16) != 0, 4>(item2('a', 'b', 'a', 'b', 'a')), attach2<(M & 32) != 0, 5>(item2(num2))));
}
template<unsigned M> static void run_mask2(const std::vector<std::string>& inputs) {
    static const auto p = make_parser2<M>();
    static ref::Gram g; static ref::LR1 lr; static bool init = false;
    if (!init) { init = true; g.NT = 3; g.T = 4; int T0 = ref::TERM, E = ref::TERM + 5; auto rule = [&](int l, std::initializer_list<int> r) { int k = g.R++; g.lhs[k] = l; g.n[k] = 0; for (int x : r) g.rhs[k][g.n[k]++] = x; };
        rule(0, {1}); rule(1, {}); rule(1, {1, 2, T0 + 2}); rule(1, {1, E, T0 + 2}); rule(2, {T0, T0 + 1, T0, T0 + 1, T0}); rule(2, {T0 + 3}); g.finish(); lr = ref::build_lr1(g, ref::analyse(g), false); if (!lr.conflict_free()) { std::printf("harness error\n"); std::exit(2); } }
    static const int arity[6] = {1, 0, 3, 3, 5, 1};
    for (const std::string& in : inputs) {
        std::vector<ref::Tok> toks; bool lexfail = false;
        for (size_t i = 0; i < in.size() && !lexfail;) { char c = in[i]; if (c == 'a') toks.push_back(ref::Tok{0, (int)i++, 1}); else if (c == 'b') toks.push_back(ref::Tok{1, (int)i++, 1}); else if (c == ';') toks.push_back(ref::Tok{2, (int)i++, 1}); else if (c == 'n') { size_t e = i; while (e < in.size() && in[e] == 'n') ++e; toks.push_back(ref::Tok{3, (int)i, int(e - i)}); i = e; } else lexfail = true; }
        ref::Run ex = ref::drive(g, ref::RefTable{lr}, toks, 4000, lexfail);
        int nctx = 0; for (int r : ex.reductions) if ((M >> r) & 1) ++nctx;
        auto judge = [&](const char* cat, const std::optional<int>& res, const void* want_addr, bool want_const, bool real_ctx) {
            ++g_cases; ++g_checks;
            if (res.has_value() != ex.ok) { fail(M, cat, "[grammar 2] " + in, "wrong acceptance"); return; }
            ++g_checks; if (g_calls.size() != ex.reductions.size()) { fail(M, cat, "[grammar 2] " + in, "number of functor calls " + std::to_string(g_calls.size()) + " != reductions " + std::to_string(ex.reductions.size())); return; }
            int seen = 0;
            for (size_t k = 0; k < g_calls.size(); ++k) {
                const Call& c = g_calls[k]; int r = ex.reductions[k]; bool ctxl = (M >> r) & 1; ++g_checks;
                if (c.rule != r) { fail(M, cat, "[grammar 2] " + in, "call " + std::to_string(k) + " is rule " + std::to_string(c.rule) + ", reduction order says " + std::to_string(r)); return; }
                if (c.has_ctx != ctxl) { fail(M, cat, "[grammar 2] " + in, "rule " + std::to_string(r) + (ctxl ? " did not receive" : " received") + " a context"); return; }
                if (c.nargs != arity[r]) { fail(M, cat, "[grammar 2] " + in, "rule " + std::to_string(r) + " got " + std::to_string(c.nargs) + " value arguments, it has " + std::to_string(arity[r]) + " right-side symbols"); return; }
                if (!ctxl || !real_ctx) continue;
                ++g_ctx_calls;
                if (c.addr != want_addr) { fail(M, cat, "[grammar 2] " + in, "context is not the caller's object"); return; }
                if (c.is_const != want_const || !c.is_lvalue) { fail(M, cat, "[grammar 2] " + in, "constness / value category of the context not preserved"); return; }
                if (!want_const && c.counter_seen != seen) { fail(M, cat, "[grammar 2] " + in, "mutation by an earlier functor not visible"); return; }
                ++seen;
            }
            ++g_checks; if (g_term_ftor_saw_ctx) fail(M, cat, "[grammar 2] " + in, "a term functor was called with the context");
        };
        { g_calls.clear(); Ctx c(1); std::ostringstream es; auto r = p.context_parse(c, string_buffer(in.c_str()), es); judge("lvalue+stream", r, &c, false, true); ++g_checks; if (c.counter != nctx) fail(M, "lvalue+stream", "[grammar 2] " + in, "caller does not see the functors' mutations"); }
        { g_calls.clear(); const Ctx c(2); std::ostringstream es; auto r = p.context_parse(c, string_buffer(in.c_str()), es); judge("const-lvalue+stream", r, &c, true, true); }
        { g_calls.clear(); Ctx c(3); std::ostringstream es; auto r = p.context_parse(c, parse_options{}.set_verbose(), string_buffer(in.c_str()), es); judge("lvalue+verbose+stream", r, &c, false, true); ++g_checks; if (c.counter != nctx) fail(M, "lvalue+verbose+stream", "[grammar 2] " + in, "caller does not see the functors' mutations"); }
        { g_calls.clear(); Ctx c(4); std::ostringstream es; auto r = p.context_parse(c, parse_options{}.set_skip_whitespace(false), string_buffer(in.c_str()), es); judge("lvalue+options+stream", r, &c, false, true); }
        { g_calls.clear(); std::ostringstream es; auto r = p.parse(string_buffer(in.c_str()), es); judge("parse()+stream", r, nullptr, false, false); }
    }
}
template<unsigned... M> static void run_all2(const std::vector<std::string>& inputs, std::integer_sequence<unsigned, M...>) { (run_mask2<M>(inputs), ...); }

// ---------------------------------------------------------------- third part: the library's own helper functors attached with '>>=' receive the context as
// their first argument like any other functor (so _e1 yields the context, _e2 the first right-side value, construct<T,1> builds T from the context)
constexpr nterm<int> h_root("root"); constexpr nterm<int> h_item("item"); constexpr nterm<int> h_two("two");
static void run_helpers() {
    using namespace ctpg::ftors;
    static const parser p(h_root, terms('1', '2', '3', '4', '5', '+'), nterms(h_root, h_item, h_two), rules(
        h_root(h_item) >= _e1,
        h_two('2') >= val(2),
        h_root(h_root, '+', h_item) >= [](int a, skip, int b) { return a * 1000 + b; },
        h_item('1') >>= _e1,                   // the context
        h_item(h_two, '1') >>= _e2,            // the first right-side value (2), not the context
        h_item('3') >>= construct<int, 1>{},   // int(context)
        h_item('4') >>= val(44),
        h_item('5') >>= create<int>{}));
    struct Case { const char* in; int ctx; int want; };
    const Case cases[] = {{"1", 123, 123}, {"21", 123, 2}, {"3", 77, 77}, {"4", 9, 44}, {"5", 9, 0}, {"1+3", 5, 5005}, {"21+1", 6, 2 * 1000 + 6}, {"4+5", 1, 44000}, {"1+1+1", 2, (2 * 1000 + 2) * 1000 + 2}};
    for (const Case& c : cases) {
        ++g_cases; ++g_checks;
        int ctx = c.ctx; std::ostringstream es; auto r = p.context_parse(ctx, string_buffer(c.in), es);
        if (!r || *r != c.want) fail(0, "int context, helper functors attached with >>=", c.in, "context_parse gives " + (r ? std::to_string(*r) : std::string("empty")) + ", helper functors called with the context as first argument give " + std::to_string(c.want));
        ++g_checks; const int cctx = c.ctx; auto r2 = p.context_parse(cctx, string_buffer(c.in));
        if (!r2 || *r2 != c.want) fail(0, "const int context, helper functors attached with >>=", c.in, "context_parse gives " + (r2 ? std::to_string(*r2) : std::string("empty")) + " expected " + std::to_string(c.want));
    }
}

// ---------------------------------------------------------------- fourth part: context objects of unusual types - a pointer, an array (must not decay to a copy),
// a std::reference_wrapper, a callable, a type with an overloaded operator& - and a parser whose '>=' functors are generic (they could accept a context, and must not get one)
struct Amp { int hits = 0; Amp* operator&() = delete; };
constexpr nterm<int> u_root("root");
template<class F> static auto make_u(F f) { return parser(u_root, terms('a'), nterms(u_root), rules(u_root('a') >>= f, u_root(u_root, 'a') >= [](auto&&... all) { return int(sizeof...(all)) * 100; })); }
static void run_unusual() {
    auto chk = [](const char* what, bool ok, const std::string& detail) { ++g_cases; ++g_checks; if (!ok) fail(0, what, "a / aa", detail); };
    {   int target = 0; int* ptr = &target;
        static const auto p = make_u([](int* c, skip) { ++*c; return 1; });
        auto r = p.context_parse(ptr, string_buffer("a")); chk("pointer context", r && *r == 1 && target == 1, "the functor did not receive the caller's pointer");
        auto r2 = p.context_parse(ptr, string_buffer("aa")); chk("pointer context, generic >= functor", r2 && *r2 == 200, "a generic functor attached with >= received " + std::to_string(r2 ? *r2 / 100 : -1) + " arguments for a 2-symbol rule"); }
    {   int arr[3] = {0, 0, 0};
        static const auto p = make_u([](int (&c)[3], skip) { c[2] = 9; return 1; });
        auto r = p.context_parse(arr, string_buffer("a")); chk("array context", r && arr[2] == 9, "the caller's array was not the object the functor wrote to"); }
    {   int target = 0; auto rw = std::ref(target);
        static const auto p = make_u([](std::reference_wrapper<int>& c, skip) { c.get() += 5; return 1; });
        auto r = p.context_parse(rw, string_buffer("a")); chk("reference_wrapper context", r && target == 5, "mutation through the reference_wrapper not visible"); }
    {   int count = 0; auto callable = [&count](int d) { count += d; };
        static const auto p = make_u([](auto& c, skip) { c(3); return 1; });
        auto r = p.context_parse(callable, string_buffer("a")); chk("callable context", r && count == 3, "the caller's callable was not the one invoked"); }
    {   Amp amp;
        static const auto p = make_u([](Amp& c, skip) { c.hits++; return 1; });
        auto r = p.context_parse(amp, string_buffer("a")); chk("context type with a deleted operator&", r && amp.hits == 1, "mutation not visible"); }
    {   const volatile int cv = 4;
        static const auto p = make_u([](const volatile int& c, skip) { return int(c) + 1; });
        auto r = p.context_parse(cv, string_buffer("a")); chk("const volatile context", r && *r == 5, "wrong value"); }
}

// ---------------------------------------------------------------- fifth part: rules attached with '>>=' under plain parse(): the functor still receives a first argument (the library's
// own "no context" object) in front of the right-side values - positions do not shift, variadic functors see arity + 1 arguments
constexpr nterm<int> np_root("root"); constexpr nterm<int> np_d("d");
static void run_no_context() {
    using namespace ctpg::ftors;
    static const parser p(np_root, terms('1', '2', '+', '#'), nterms(np_root, np_d), rules(
        np_d('1') >= val(1), np_d('2') >= val(2),
        np_root(np_d, np_d) >>= _e2,                                                        // first right-side value
        np_root(np_d, '+', np_d) >>= [](auto&&... all) { return int(sizeof...(all)) * 10; },  // context + 3 values
        np_root('#', np_d, np_d) >>= _e3));                                                   // second right-side value (np_d), not the third
    struct Case { const char* in; int want; };
    for (Case c : {Case{"12", 1}, Case{"21", 2}, Case{"1+2", 40}, Case{"#12", 1}, Case{"#21", 2}}) {
        ++g_cases; ++g_checks;
        std::ostringstream es; auto r = p.parse(string_buffer(c.in), es); int ctx = 77; auto r2 = p.context_parse(ctx, string_buffer(c.in));
        if (!r || *r != c.want) fail(0, "parse() on rules attached with >>=", c.in, "parse() gives " + (r ? std::to_string(*r) : std::string("empty")) + ", expected " + std::to_string(c.want) + " (the functor is called with a first argument in front of the right-side values)");
        ++g_checks; if (!r2 || *r2 != c.want) fail(0, "context_parse on the same grammar", c.in, "context_parse gives " + (r2 ? std::to_string(*r2) : std::string("empty")) + ", expected " + std::to_string(c.want));
    }
}

int main(int argc, char** argv) {
    int n = argc > 1 ? std::atoi(argv[1]) : 4;
    run_helpers(); run_unusual(); run_no_context();
    {
        std::vector<std::string> in2{""}; int n2 = n > 6 ? 7 : n + 2;
        for (size_t lo = 0, l = 0; l < (size_t)n2; ++l) { size_t hi = in2.size(); for (size_t i = lo; i < hi; ++i) for (char c : {'a', 'b', ';', 'n'}) in2.push_back(in2[i] + c); lo = hi; }
        for (const char* x : {"ababa;n;", "ababa;nn;ababa;", "abab;n;", "n;abba;ababa;", "ababa;;n;", "n;x"}) in2.push_back(x);
        run_all2(in2, std::integer_sequence<unsigned, 0, 63, 21, 42, 1, 2, 4, 8, 16, 32>{});
    }
    std::vector<std::string> inputs{""};
    for (size_t lo = 0, l = 0; l < (size_t)n; ++l) { size_t hi = inputs.size(); for (size_t i = lo; i < hi; ++i) for (char c : {'a', 'b', 'x'}) inputs.push_back(inputs[i] + c); lo = hi; }
    run_all(inputs, std::make_integer_sequence<unsigned, 16>{});
    std::string esc; for (char c : g_first) { if (c == '"' || c == '\\') esc += '\\'; esc += c; }
    std::printf("{\"cases\": %ld, \"checks\": %ld, \"failures\": %ld, \"contextual_calls\": %ld, \"inputs\": %zu, \"parsers\": 16, \"first_failure\": \"%s\"}\n", g_cases, g_checks, g_fail, g_ctx_calls, inputs.size(), esc.c_str());
    return g_fail ? 1 : 0;
}
