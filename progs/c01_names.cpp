// C01 (compiled part): symbol identity in the DSL. A rule refers to a term by the term object; two different terms may carry the same display
// name (regex terms with a custom name), and a name may be shared between a term and a nonterminal. The grammar "as written" relates each
// occurrence to the object that was written, so the language must be the one of the rules as written. Every input up to a bound. Black box.
#include <ctpg/ctpg.hpp>
#include <cstdio>
#include <cstdlib>
#include <sstream>
#include <string>
#include <vector>

using namespace ctpg;
using namespace ctpg::ftors;
using namespace ctpg::buffers;

static long g_cases = 0, g_checks = 0, g_fail = 0, g_accept = 0; static std::string g_first;
static void fail(const char* g, const std::string& in, const std::string& what) { ++g_fail; if (g_first.empty()) g_first = std::string(g) + ", input '" + in + "': " + what; }
static std::vector<std::string> all_inputs(const std::string& al, int n) { std::vector<std::string> v{""}; for (size_t lo = 0, l = 0; l < (size_t)n; ++l) { size_t hi = v.size(); for (size_t i = lo; i < hi; ++i) for (char c : al) v.push_back(v[i] + c); lo = hi; } return v; }

// grammar 1: two regex terms with the same display name "number": decimal digits, and x followed by hex-ish letters
//   lit -> dec | '#' hex          (dec = [0-9]+ , hex = x[a-f]+ ; both displayed as "number")
constexpr char dec_pat[] = "[0-9]+"; constexpr regex_term<dec_pat> dec("number");
constexpr char hex_pat[] = "x[a-f]+"; constexpr regex_term<hex_pat> hexn("number");
constexpr nterm<int> lit("lit");
// grammar 2: a nonterminal and a term that share a name, and two string terms one of which is the other's display text
constexpr nterm<int> item("item"); constexpr nterm<int> items("items");
constexpr char item_pat[] = "i+"; constexpr regex_term<item_pat> item_term("item");     // a term called like the nonterminal "item"

int main(int argc, char** argv) {
    int n = argc > 1 ? std::atoi(argv[1]) : 5;
    {
        static const parser p(lit, terms(dec, hexn, '#'), nterms(lit), rules(lit(dec) >= val(1), lit('#', hexn) >= val(2)));
        for (const std::string& in : all_inputs("7xa#", n)) {
            ++g_cases; ++g_checks;
            // reference: "[0-9]+" -> 1 ; "#" "x[a-f]+" -> 2 (the only letters of the alphabet are x and a; digits: 7)
            int want = 0;
            if (!in.empty() && in.find_first_not_of('7') == std::string::npos) want = 1;
            else if (in.size() >= 3 && in[0] == '#' && in[1] == 'x' && in.find_first_not_of('a', 2) == std::string::npos) want = 2;
            std::ostringstream es; auto r = p.parse(string_buffer(std::string(in)), es);
            if ((r ? *r : 0) != want) fail("two regex terms with the same display name", in, "parse gives " + (r ? std::to_string(*r) : std::string("<rejected>")) + ", the rules as written give " + (want ? std::to_string(want) : std::string("<rejected>")));
            if (want) ++g_accept;
        }
    }
    {
        static const parser p(items, terms(item_term, ','), nterms(items, item), rules(items(item) >= _e1, items(items, ',', item) >= [](int a, skip, int b) { return a + b; }, item(item_term) >= [](const auto& t) { return int(t.get_value().size()); }));
        for (const std::string& in : all_inputs("i,x", n)) {
            ++g_cases; ++g_checks;
            // reference: i+ (',' i+)* -> total number of i
            bool ok = !in.empty(); int total = 0; size_t k = 0;
            while (ok) { size_t s = k; while (k < in.size() && in[k] == 'i') ++k; if (k == s) { ok = false; break; } total += int(k - s); if (k == in.size()) break; if (in[k] != ',') { ok = false; break; } ++k; }
            std::ostringstream es; auto r = p.parse(string_buffer(std::string(in)), es);
            if (r.has_value() != ok || (ok && *r != total)) fail("a term and a nonterminal with the same name", in, "parse gives " + (r ? std::to_string(*r) : std::string("<rejected>")) + " expected " + (ok ? std::to_string(total) : std::string("<rejected>")));
            if (ok) ++g_accept;
        }
    }
    {   // the same with typed terms wrapping the two regex terms
        static const typed_term tdec(dec, [](std::string_view sv) { return int(sv.size()); }); static const typed_term thex(hexn, [](std::string_view sv) { return int(sv.size()) * 100; });
        static const parser p(lit, terms(tdec, thex, '#'), nterms(lit), rules(lit(tdec) >= [](const auto& t) { return t.get_value(); }, lit('#', thex) >= [](skip, const auto& t) { return t.get_value(); }));
        for (const std::string& in : all_inputs("7xa#", n)) {
            ++g_cases; ++g_checks;
            int want = 0;
            if (!in.empty() && in.find_first_not_of('7') == std::string::npos) want = int(in.size());
            else if (in.size() >= 3 && in[0] == '#' && in[1] == 'x' && in.find_first_not_of('a', 2) == std::string::npos) want = int(in.size() - 1) * 100;
            std::ostringstream es; auto r = p.parse(string_buffer(std::string(in)), es);
            if ((r ? *r : 0) != want) fail("two typed regex terms with the same display name", in, "parse gives " + (r ? std::to_string(*r) : std::string("<rejected>")) + ", the rules as written give " + (want ? std::to_string(want) : std::string("<rejected>")));
            if (want) ++g_accept;
        }
    }
    {   // nonterminal names that collide under common string hashes are still different symbols: root -> A 'x' | B 'y' ; A -> 'a' ; B -> 'b'
        static const char* pairs[][2] = {{"costarring", "liquid"}, {"declinate", "macallums"}, {"altarage", "zinke"}, {"hetairas", "mentioner"}, {"stylist", "subgenera"}, {"Aa", "BB"}, {"plumless", "buckeroo"}, {"codding", "gnu"}};
        for (auto& pr : pairs) {
            nterm<int> root("root"), A(pr[0]), B(pr[1]);
            parser p(root, terms('a', 'b', 'x', 'y'), nterms(root, A, B), rules(root(A, 'x') >= val(1), root(B, 'y') >= val(2), A('a') >= val(0), B('b') >= val(0)));
            for (const std::string& in : all_inputs("abxy", 3)) {
                ++g_cases; ++g_checks; int want = in == "ax" ? 1 : in == "by" ? 2 : 0;
                std::ostringstream es; auto r = p.parse(string_buffer(std::string(in)), es);
                if ((r ? *r : 0) != want) fail((std::string("nonterminals '") + pr[0] + "' and '" + pr[1] + "'").c_str(), in, "parse gives " + (r ? std::to_string(*r) : std::string("<rejected>")) + ", the rules as written give " + (want ? std::to_string(want) : std::string("<rejected>")));
                if (want) ++g_accept;
            }
        }
    }
    {   // char terms for control characters and for bytes >= 0x80 are different symbols with different names: root -> X Y for every ordered pair of a byte list
        static constexpr unsigned char bytes[] = {0x01, 0x0f, 0x7f, 0x80, 0x81, 0x8f, 0x91, 0xa0, 0xf1, 0xff};
        auto one = [&](auto ia, auto ib) {
            constexpr unsigned char a = bytes[decltype(ia)::value], b = bytes[decltype(ib)::value];
            static constexpr nterm<int> root("root");
            static const parser p(root, terms(char_term(char(a)), char_term(char(b))), nterms(root), rules(root(char_term(char(a)), char_term(char(b))) >= val(1)));
            for (unsigned char x : {a, b}) for (unsigned char y : {a, b}) {
                ++g_cases; ++g_checks; std::string in; in += char(x); in += char(y); int want = (x == a && y == b) ? 1 : 0;
                std::ostringstream es; auto r = p.parse(string_buffer(std::string(in)), es);
                char nm[16]; std::snprintf(nm, sizeof nm, "%02x %02x", a, b);
                if ((r ? *r : 0) != want) fail((std::string("char terms for bytes ") + nm).c_str(), nm, "the two-byte input made of byte " + std::to_string(x) + " then " + std::to_string(y) + (r ? " is accepted" : " is rejected"));
                if (!r) { char want_name[8]; unsigned char bad = (x != a) ? x : y; if (bad > 32 && bad < 127) std::snprintf(want_name, sizeof want_name, "%c", bad); else std::snprintf(want_name, sizeof want_name, "\\x%02X", bad);
                    std::string want_msg = std::string(x != a ? "[1:1]" : "[1:2]") + " PARSE: Syntax error: Unexpected '" + want_name + "'\n";
                    ++g_checks; if (es.str() != want_msg) fail((std::string("char terms for bytes ") + nm).c_str(), nm, "message '" + es.str() + "' expected '" + want_msg + "'"); }
                if (want) ++g_accept;
            }
        };
        auto row = [&](auto ia) { one(ia, std::integral_constant<size_t, 0>{}); one(ia, std::integral_constant<size_t, 1>{}); one(ia, std::integral_constant<size_t, 3>{}); one(ia, std::integral_constant<size_t, 4>{}); one(ia, std::integral_constant<size_t, 8>{}); one(ia, std::integral_constant<size_t, 9>{}); };
        row(std::integral_constant<size_t, 0>{}); row(std::integral_constant<size_t, 1>{}); row(std::integral_constant<size_t, 2>{}); row(std::integral_constant<size_t, 4>{}); row(std::integral_constant<size_t, 5>{}); row(std::integral_constant<size_t, 6>{}); row(std::integral_constant<size_t, 7>{}); row(std::integral_constant<size_t, 8>{});
    }
    std::string esc; for (char c : g_first) { if (c == '"' || c == '\\') esc += '\\'; esc += c; }
    std::printf("{\"cases\": %ld, \"checks\": %ld, \"failures\": %ld, \"accepted\": %ld, \"first_failure\": \"%s\"}\n", g_cases, g_checks, g_fail, g_accept, esc.c_str());
    return g_fail ? 1 : 0;
}
