// C16 (compiled part): the verbose trace is written as the actions happen. Functors that write into the very stream that receives the trace, and a functor that
// throws, make the moment of each trace line observable: the line announcing a reduction precedes the effects of that reduction's functor, the line of a shift
// precedes the effects of later functors, and a parse left by an exception has announced the reduction whose functor threw. Every input up to a bound. Black box.
#include <ctpg/ctpg.hpp>
#include <cstdio>
#include <cstdlib>
#include <sstream>
#include <string>
#include <vector>

using namespace ctpg;
using namespace ctpg::buffers;

static std::ostream* g_out = nullptr; static int g_throw_rule = -1;
struct Boom { int rule; };
template<int K> struct W { template<class... A> int operator()(A&&...) const { if (g_out) *g_out << "FUNCTOR " << K << "\n"; if (K == g_throw_rule) throw Boom{K}; return K; } };
constexpr nterm<int> e("e"); constexpr nterm<int> t("t");
static long g_cases = 0, g_checks = 0, g_fail = 0; static std::string g_first;
static void fail(const std::string& in, const std::string& what) { ++g_fail; if (g_first.empty()) g_first = "input '" + in + "': " + what; }

int main(int argc, char** argv) {
    int n = argc > 1 ? std::atoi(argv[1]) : 5;
    static const parser p(e, terms('2', '+', '(', ')'), nterms(e, t), rules(e(t) >= W<0>{}, e(e, '+', t) >= W<1>{}, t('2') >= W<2>{}, t('(', e, ')') >= W<3>{}));
    std::vector<std::string> inputs{""}; for (size_t lo = 0, l = 0; l < (size_t)n; ++l) { size_t hi = inputs.size(); for (size_t i = lo; i < hi; ++i) for (char c : {'2', '+', '(', ')'}) inputs.push_back(inputs[i] + c); lo = hi; }
    for (const std::string& in : inputs) for (int thr = -1; thr < 4; ++thr) {
        ++g_cases; g_throw_rule = thr;
        std::ostringstream tr; g_out = &tr; bool threw = false; int thrown_rule = -1;
        try { auto r = p.parse(parse_options{}.set_verbose(), string_buffer(std::string(in)), tr); (void)r; } catch (const Boom& b) { threw = true; thrown_rule = b.rule; }
        g_out = nullptr; g_throw_rule = -1;
        // walk the lines: every "FUNCTOR k" line must follow the "Reduced using rule k" line of its own reduction (and that reduction's "Go to" line), before the trace moves on to the next term
        std::istringstream is(tr.str()); std::string line; int pending = -1; long nf = 0, nr = 0; bool ok = true; std::string why;
        while (std::getline(is, line)) {
            size_t rp = line.find("Reduced using rule ");
            if (rp != std::string::npos) { if (pending >= 0) { ok = false; why = "a reduction by rule " + std::to_string(pending) + " was announced but its functor did not run before the next announcement"; break; } pending = std::atoi(line.c_str() + rp + 19); ++nr; continue; }
            if (line.rfind("FUNCTOR ", 0) == 0) { int k = std::atoi(line.c_str() + 8); ++nf; if (pending != k) { ok = false; why = "functor of rule " + std::to_string(k) + " ran " + (pending < 0 ? std::string("before its reduction was announced in the trace") : "while the trace had announced rule " + std::to_string(pending)); break; } pending = -1; continue; }
            if (pending >= 0 && (line.find("Shift") != std::string::npos || line.find("Recognized") != std::string::npos)) /* the "Go to" line of the same reduction may come first */ { ok = false; why = "the trace went on ('" + line + "') before the functor of announced rule " + std::to_string(pending) + " ran"; break; }
        }
        ++g_checks; if (!ok) { fail(in, why + (thr >= 0 ? " (functor of rule " + std::to_string(thr) + " throws)" : "")); continue; }
        ++g_checks; if (threw && nr == 0) fail(in, "an exception left the parse from the functor of rule " + std::to_string(thrown_rule) + " but the trace announces no reduction");
        ++g_checks; if (!threw && pending >= 0) fail(in, "the trace ends with an announced reduction whose functor never ran");
        ++g_checks; if (nf != nr) fail(in, std::to_string(nr) + " reductions announced, " + std::to_string(nf) + " functor calls");
    }
    std::string esc; for (char c : g_first) { if (c == '"' || c == '\\') esc += '\\'; if (c == '\n') { esc += ' '; continue; } esc += c; }
    std::printf("{\"cases\": %ld, \"checks\": %ld, \"failures\": %ld, \"first_failure\": \"%s\"}\n", g_cases, g_checks, g_fail, esc.c_str());
    return g_fail ? 1 : 0;
}
