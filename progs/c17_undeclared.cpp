// C17 (grammar part): a grammar that mentions a symbol not declared in terms()/nterms() must be refused when the parser
// is constructed. Every position kind (root, left side, right side) x symbol kind (nterm, char, string, regex, typed term)
// x adversarial undeclared names (unrelated, extension of a declared name, prefix of a declared name). Black box.
#include <ctpg/ctpg.hpp>
#include <cstdio>
#include <string>
#include <tuple>
#include <sys/resource.h>
#include <optional>

using namespace ctpg;
using namespace ctpg::ftors;

// the parser constructor keeps its whole analysis state in a local variable (tens of MB for 9-symbol rules): raise the stack limit first
__attribute__((constructor(101))) static void raise_stack_limit() { rlimit rl{}; if (getrlimit(RLIMIT_STACK, &rl) == 0) { rl.rlim_cur = rl.rlim_max; setrlimit(RLIMIT_STACK, &rl); } }
static long g_cases = 0, g_checks = 0, g_fail = 0, g_refused = 0; static std::string g_first;
template<class F> static void must_refuse(const char* what, F make) {
    ++g_cases; ++g_checks;
    bool refused = false;
    try { make(); } catch (const std::exception&) { refused = true; }
    if (refused) ++g_refused; else { ++g_fail; if (g_first.empty()) g_first = std::string(what) + ": a parser was constructed"; }
}
template<class F> static void must_accept(const char* what, F make) {
    ++g_cases; ++g_checks;
    try { make(); } catch (const std::exception& e) { ++g_fail; if (g_first.empty()) g_first = std::string(what) + ": a well-formed grammar was refused: " + e.what(); }
}

constexpr nterm<int> list("list"); constexpr nterm<int> item("item");
constexpr nterm<int> lists("lists"); constexpr nterm<int> lis("lis"); constexpr nterm<int> items("items"); constexpr nterm<int> zz("zz"); constexpr nterm<int> List("List");
constexpr char pat_id[] = "[a-z]+"; constexpr regex_term<pat_id> ident("ident");
constexpr char pat_id2[] = "[a-z]+x"; constexpr regex_term<pat_id2> ident2("ident");   // same display name, different pattern
constexpr char pat_id3[] = "[a-z]"; constexpr regex_term<pat_id3> ident3("ident3");      // pattern is a prefix of a declared one
static int to_i(std::string_view) { return 1; }

#define TERMS terms('a', ',', "ab", ident)
#define NTERMS nterms(list, item)
#define GOOD_RULES list(item), list(list, ',', item) >= [](int a, skip, int b){ return a + b; }, item('a') >= val(1), item("ab") >= val(2), item(ident) >= val(3)

// position- and size-dependent cases: the undeclared symbol at each of the 9 positions of a 9-symbol rule, in the 20th rule, and names that
// share a 60-character prefix with a declared name
template<bool Bad> constexpr auto pick_sym() { if constexpr (Bad) return zz; else return char_term('a'); }
template<size_t K, size_t... I> static auto long_rule(std::index_sequence<I...>) { return item(pick_sym<I == K>()...) >= [](auto&&...) { return 1; }; }
template<size_t N, size_t... I> static auto a_run(std::index_sequence<I...>) { return item(((void)I, char_term('a'))...) >= [](auto&&...) { return int(N); }; }
template<size_t... K> static auto filler_rules(std::index_sequence<K...>) { return std::make_tuple(a_run<K + 2>(std::make_index_sequence<K + 2>{})...); }
constexpr nterm<int> longA("a_nonterminal_with_a_very_long_descriptive_name_that_goes_on_and_on_A");
constexpr nterm<int> longB("a_nonterminal_with_a_very_long_descriptive_name_that_goes_on_and_on_B");
constexpr nterm<int> longAx("a_nonterminal_with_a_very_long_descriptive_name_that_goes_on_and_on_Ax");
template<size_t K> static void undeclared_at() {
    static const std::string what = "undeclared nonterminal at position " + std::to_string(K + 1) + " of a 9-symbol rule";
    must_refuse(what.c_str(), [] { parser p(list, TERMS, NTERMS, rules(GOOD_RULES, long_rule<K>(std::make_index_sequence<9>{}))); (void)p; });
}
template<size_t... K> static void undeclared_at_all(std::index_sequence<K...>) { (undeclared_at<K>(), ...); }
// pairs of names that collide under widely used string hashes (FNV-1a 32, FNV-1 32, djb2, Java hashCode, CRC-32): a lookup that trusts a hash alone
// would take one for the other
struct NamePair { const char* a; const char* b; };
static const NamePair colliding[] = {{"costarring", "liquid"}, {"declinate", "macallums"}, {"altarage", "zinke"}, {"creamwove", "quists"}, {"hetairas", "mentioner"},
    {"heliotropes", "neurospora"}, {"depravement", "serafins"}, {"stylist", "subgenera"}, {"joyful", "synaphea"}, {"redescribed", "urites"}, {"dram", "vivency"},
    {"Aa", "BB"}, {"AaAa", "BBBB"}, {"plumless", "buckeroo"}, {"codding", "gnu"}, {"exhibiters", "schlager"}};

int main() {
    for (const NamePair& np : colliding) {
        static std::string what; what = std::string("nonterminal '") + np.b + "' used where only '" + np.a + "' is declared (names colliding under a common string hash)";
        must_refuse(what.c_str(), [&] { nterm<int> x(np.a), y(np.b); parser p(list, TERMS, nterms(list, item, x), rules(GOOD_RULES, x('a') >= val(1), item(y))); (void)p; });
        what = std::string("both '") + np.a + "' and '" + np.b + "' declared";
        must_accept(what.c_str(), [&] { nterm<int> x(np.a), y(np.b); parser p(list, TERMS, nterms(list, item, x, y), rules(GOOD_RULES, x('a', ',') >= val(1), y("ab", ',') >= val(2), item(x, y))); (void)p; });
    }
    undeclared_at_all(std::make_index_sequence<9>{});
    must_accept("9-symbol rule of declared symbols", [] { parser p(list, TERMS, NTERMS, rules(GOOD_RULES, a_run<9>(std::make_index_sequence<9>{}))); (void)p; });
    must_refuse("undeclared symbol in the 21st rule (after 15 filler rules)", [] { std::apply([](auto... f) { parser p(list, TERMS, NTERMS, rules(GOOD_RULES, f..., item(zz) >= val(9))); (void)p; }, filler_rules(std::make_index_sequence<15>{})); });
    must_refuse("undeclared left side in the 21st rule", [] { std::apply([](auto... f) { parser p(list, TERMS, NTERMS, rules(GOOD_RULES, f..., zz('a') >= val(9))); (void)p; }, filler_rules(std::make_index_sequence<15>{})); });
    must_accept("21 rules, all symbols declared", [] { std::apply([](auto... f) { parser p(list, TERMS, NTERMS, rules(GOOD_RULES, f..., item(ident, ',', ident) >= val(9))); (void)p; }, filler_rules(std::make_index_sequence<15>{})); });
    must_refuse("69-character name differing from a declared one in its last character", [] { parser p(list, TERMS, nterms(list, item, longA), rules(GOOD_RULES, longA('a') >= val(1), item(longB))); (void)p; });
    must_refuse("name extending a declared 69-character name", [] { parser p(list, TERMS, nterms(list, item, longA), rules(GOOD_RULES, longA('a') >= val(1), item(longAx))); (void)p; });
    must_refuse("declared 70-character name, undeclared 69-character prefix of it", [] { parser p(list, TERMS, nterms(list, item, longAx), rules(GOOD_RULES, longAx('a') >= val(1), item(longA))); (void)p; });
    must_accept("two 69-character names differing in the last character, both declared", [] { parser p(list, TERMS, nterms(list, item, longA, longB), rules(GOOD_RULES, longA('a') >= val(1), longB(longA), item(longB, ','))); (void)p; });
    must_accept("reference grammar", [] { parser p(list, TERMS, NTERMS, rules(GOOD_RULES)); (void)p; });
    // undeclared nonterminal on a right side
    must_refuse("rhs nterm 'zz'", [] { parser p(list, TERMS, NTERMS, rules(GOOD_RULES, item(zz))); (void)p; });
    must_refuse("rhs nterm 'lists' (extends declared 'list')", [] { parser p(list, TERMS, NTERMS, rules(GOOD_RULES, item(lists))); (void)p; });
    must_refuse("rhs nterm 'lis' (prefix of declared 'list')", [] { parser p(list, TERMS, NTERMS, rules(GOOD_RULES, item(lis))); (void)p; });
    must_refuse("rhs nterm 'List' (case differs)", [] { parser p(list, TERMS, NTERMS, rules(GOOD_RULES, item(List))); (void)p; });
    must_refuse("rhs nterm in the middle of a rule", [] { parser p(list, TERMS, NTERMS, rules(GOOD_RULES, list(list, items, item) >= [](int a, int, int b){ return a + b; })); (void)p; });
    // undeclared nonterminal on a left side
    must_refuse("lhs nterm 'items' (extends declared 'item')", [] { parser p(list, TERMS, NTERMS, rules(GOOD_RULES, items('a') >= val(1))); (void)p; });
    must_refuse("lhs nterm 'zz'", [] { parser p(list, TERMS, NTERMS, rules(GOOD_RULES, zz('a') >= val(1))); (void)p; });
    must_refuse("lhs nterm 'lis' (prefix of declared 'list')", [] { parser p(list, TERMS, NTERMS, rules(GOOD_RULES, lis('a') >= val(1))); (void)p; });
    // undeclared root
    must_refuse("root 'lists' not declared", [] { parser p(lists, TERMS, NTERMS, rules(GOOD_RULES)); (void)p; });
    must_refuse("root 'zz' not declared", [] { parser p(zz, TERMS, NTERMS, rules(GOOD_RULES)); (void)p; });
    // undeclared terms
    must_refuse("rhs char term 'b'", [] { parser p(list, TERMS, NTERMS, rules(GOOD_RULES, item('b') >= val(1))); (void)p; });
    must_refuse("rhs string term \"abc\" (extends declared \"ab\")", [] { parser p(list, TERMS, NTERMS, rules(GOOD_RULES, item("abc") >= val(1))); (void)p; });
    must_refuse("rhs string term \"aa\" (extends declared 'a')", [] { parser p(list, TERMS, NTERMS, rules(GOOD_RULES, item("aa") >= val(1))); (void)p; });
    must_refuse("rhs string term \",,\"", [] { parser p(list, TERMS, NTERMS, rules(GOOD_RULES, item(",,") >= val(1))); (void)p; });
    must_refuse("rhs regex term with another pattern but the same display name", [] { parser p(list, TERMS, NTERMS, rules(GOOD_RULES, item(ident2) >= val(1))); (void)p; });
    must_refuse("rhs regex term whose pattern is a prefix of a declared pattern", [] { parser p(list, TERMS, NTERMS, rules(GOOD_RULES, item(ident3) >= val(1))); (void)p; });
    // a typed term wrapping a regex term keeps the identity of what it wraps: a string term spelled like its display name is a different, undeclared symbol
    must_refuse("string term \"ident\" when only a typed regex term named ident is declared", [] { static const typed_term tid(ident, to_i); parser p(list, terms('a', ',', tid), NTERMS, rules(list(item), item('a') >= val(1), item("ident") >= val(2))); (void)p; });
    must_refuse("bare regex term named like a declared typed regex term with another pattern", [] { static const typed_term tid(ident, to_i); parser p(list, terms('a', ',', tid), NTERMS, rules(list(item), item('a') >= val(1), item(ident2) >= val(2))); (void)p; });
    must_accept("typed regex term used through its own object", [] { static const typed_term tid(ident, to_i); parser p(list, terms('a', ',', tid), NTERMS, rules(list(item), item('a') >= val(1), item(tid) >= val(2))); (void)p; });
    must_refuse("rhs regex term when no regex term is declared", [] { parser p(list, terms('a', ','), NTERMS, rules(list(item), item('a') >= val(1), item(ident) >= val(3))); (void)p; });
    must_refuse("empty nonterminal name", [] { nterm<int> e(""); (void)e; });
    // declared symbols in unusual but legal places must still be accepted
    must_accept("declared but unused symbols", [] { parser p(list, terms('a', ',', "ab", ident, 'q'), nterms(list, item, zz), rules(GOOD_RULES)); (void)p; });
    must_accept("names that are prefixes of each other, all declared", [] { parser p(list, TERMS, nterms(list, item, lists, lis), rules(GOOD_RULES, lists(lis), lis(list))); (void)p; });
    std::string esc; for (char c : g_first) { if (c == '"' || c == '\\') esc += '\\'; esc += c; }
    std::printf("{\"cases\": %ld, \"checks\": %ld, \"failures\": %ld, \"refused\": %ld, \"first_failure\": \"%s\"}\n", g_cases, g_checks, g_fail, g_refused, esc.c_str());
    return g_fail ? 1 : 0;
}
