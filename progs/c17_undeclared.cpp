// C17 (grammar part): a grammar that mentions a symbol not declared in terms()/nterms() must be refused when the parser
// is constructed. Every position kind (root, left side, right side) x symbol kind (nterm, char, string, regex, typed term)
// x adversarial undeclared names (unrelated, extension of a declared name, prefix of a declared name). Black box.
#include <ctpg/ctpg.hpp>
#include <cstdio>
#include <string>

using namespace ctpg;
using namespace ctpg::ftors;

static long g_cases = 0, g_checks = 0, g_fail = 0, g_refused = 0; static std::string g_first;
template<class F> static void must_refuse(const char* what, F make) {
    ++g_cases; ++g_checks;
    bool refused = false;
    try { make(); } catch (const std::exception&) { refused = true; }
    if (refused) ++g_refused; else { ++g_fail; if (g_first.empty()) g_first = std::string(what) + ": a parser was constructed"; }
}
template<class F> static void must_accept(const char* what, F make) {
    ++g_cases; ++g_checks;
    try { make(); } catch (const std::exception& e) { ++g_fail; if (g_first.empty()) g_first = std::string(what) + ": a well-formed grammar was refused: " + e.what(); }
}

constexpr nterm<int> list("list"); constexpr nterm<int> item("item");
constexpr nterm<int> lists("lists"); constexpr nterm<int> lis("lis"); constexpr nterm<int> items("items"); constexpr nterm<int> zz("zz"); constexpr nterm<int> List("List");
constexpr char pat_id[] = "[a-z]+"; constexpr regex_term<pat_id> ident("ident");
constexpr char pat_id2[] = "[a-z]+x"; constexpr regex_term<pat_id2> ident2("ident");   // same display name, different pattern
constexpr char pat_id3[] = "[a-z]"; constexpr regex_term<pat_id3> ident3("ident3");      // pattern is a prefix of a declared one
static int to_i(std::string_view) { return 1; }

#define TERMS terms('a', ',', "ab", ident)
#define NTERMS nterms(list, item)
#define GOOD_RULES list(item), list(list, ',', item) >= [](int a, skip, int b){ return a + b; }, item('a') >= val(1), item("ab") >= val(2), item(ident) >= val(3)

int main() {
    must_accept("reference grammar", [] { parser p(list, TERMS, NTERMS, rules(GOOD_RULES)); (void)p; });
    // undeclared nonterminal on a right side
    must_refuse("rhs nterm 'zz'", [] { parser p(list, TERMS, NTERMS, rules(GOOD_RULES, item(zz))); (void)p; });
    must_refuse("rhs nterm 'lists' (extends declared 'list')", [] { parser p(list, TERMS, NTERMS, rules(GOOD_RULES, item(lists))); (void)p; });
    must_refuse("rhs nterm 'lis' (prefix of declared 'list')", [] { parser p(list, TERMS, NTERMS, rules(GOOD_RULES, item(lis))); (void)p; });
    must_refuse("rhs nterm 'List' (case differs)", [] { parser p(list, TERMS, NTERMS, rules(GOOD_RULES, item(List))); (void)p; });
    must_refuse("rhs nterm in the middle of a rule", [] { parser p(list, TERMS, NTERMS, rules(GOOD_RULES, list(list, items, item) >= [](int a, int, int b){ return a + b; })); (void)p; });
    // undeclared nonterminal on a left side
    must_refuse("lhs nterm 'items' (extends declared 'item')", [] { parser p(list, TERMS, NTERMS, rules(GOOD_RULES, items('a') >= val(1))); (void)p; });
    must_refuse("lhs nterm 'zz'", [] { parser p(list, TERMS, NTERMS, rules(GOOD_RULES, zz('a') >= val(1))); (void)p; });
    must_refuse("lhs nterm 'lis' (prefix of declared 'list')", [] { parser p(list, TERMS, NTERMS, rules(GOOD_RULES, lis('a') >= val(1))); (void)p; });
    // undeclared root
    must_refuse("root 'lists' not declared", [] { parser p(lists, TERMS, NTERMS, rules(GOOD_RULES)); (void)p; });
    must_refuse("root 'zz' not declared", [] { parser p(zz, TERMS, NTERMS, rules(GOOD_RULES)); (void)p; });
    // undeclared terms
    must_refuse("rhs char term 'b'", [] { parser p(list, TERMS, NTERMS, rules(GOOD_RULES, item('b') >= val(1))); (void)p; });
    must_refuse("rhs string term \"abc\" (extends declared \"ab\")", [] { parser p(list, TERMS, NTERMS, rules(GOOD_RULES, item("abc") >= val(1))); (void)p; });
    must_refuse("rhs string term \"aa\" (extends declared 'a')", [] { parser p(list, TERMS, NTERMS, rules(GOOD_RULES, item("aa") >= val(1))); (void)p; });
    must_refuse("rhs string term \",,\"", [] { parser p(list, TERMS, NTERMS, rules(GOOD_RULES, item(",,") >= val(1))); (void)p; });
    must_refuse("rhs regex term with another pattern but the same display name", [] { parser p(list, TERMS, NTERMS, rules(GOOD_RULES, item(ident2) >= val(1))); (void)p; });
    must_refuse("rhs regex term whose pattern is a prefix of a declared pattern", [] { parser p(list, TERMS, NTERMS, rules(GOOD_RULES, item(ident3) >= val(1))); (void)p; });
    must_refuse("rhs regex term when no regex term is declared", [] { parser p(list, terms('a', ','), NTERMS, rules(list(item), item('a') >= val(1), item(ident) >= val(3))); (void)p; });
    must_refuse("empty nonterminal name", [] { nterm<int> e(""); (void)e; });
    // declared symbols in unusual but legal places must still be accepted
    must_accept("declared but unused symbols", [] { parser p(list, terms('a', ',', "ab", ident, 'q'), nterms(list, item, zz), rules(GOOD_RULES)); (void)p; });
    must_accept("names that are prefixes of each other, all declared", [] { parser p(list, TERMS, nterms(list, item, lists, lis), rules(GOOD_RULES, lists(lis), lis(list))); (void)p; });
    std::string esc; for (char c : g_first) { if (c == '"' || c == '\\') esc += '\\'; esc += c; }
    std::printf("{\"cases\": %ld, \"checks\": %ld, \"failures\": %ld, \"refused\": %ld, \"first_failure\": \"%s\"}\n", g_cases, g_checks, g_fail, g_refused, esc.c_str());
    return g_fail ? 1 : 0;
}
