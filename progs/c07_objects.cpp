// C07 / C15 (compiled part): a parser is a value. However the object came into being - constexpr, static, on the stack, on the heap, copy-constructed,
// move-constructed, copy-assigned into an optional, element of a growing vector, returned from a function - and whatever happened to the object it was
// made from (destroyed, storage reused by a DIFFERENT parser of the same type), every parse gives what the grammar says. Also: rule / term / functor
// objects that are named and reused by the caller are not changed by building a parser from them. Black box.
#include <ctpg/ctpg.hpp>
#include <cstdio>
#include <cstdlib>
#include <memory>
#include <optional>
#include <sstream>
#include <string>
#include <vector>

using namespace ctpg;
using namespace ctpg::ftors;
using namespace ctpg::buffers;

static long g_cases = 0, g_checks = 0, g_fail = 0; static std::string g_first;
static void fail(const std::string& what) { ++g_fail; if (g_first.empty()) g_first = what; }

constexpr nterm<int> list("list");
constexpr char word_pat_a[] = "a[a1]*"; constexpr char word_pat_b[] = "b[b2]*";
// two parsers of the SAME C++ type that differ only in run-time data: the character of their char term and the weight their functor adds
struct Weigh { int w; int operator()(std::string_view sv) const { return int(sv.size()) * w; } };
static auto make(char sep, int w) {
    typed_term word(regex_term<word_pat_a>("word"), Weigh{w});
    return parser(list, terms(word, char_term(sep)), nterms(list), rules(
        list(word) >= [](const auto& t) { return t.get_value(); },
        list(list, char_term(sep), word) >= [](int a, skip, const auto& t) { return a * 10 + t.get_value(); }));
}
using P = decltype(make(',', 1));

// reference: words a[a1]* separated by sep, whitespace skipped between terms; value folds (a * 10 + len * w)
static std::optional<int> ref(const std::string& in, char sep, int w) {
    size_t i = 0; bool need_word = true; int val = 0; bool any = false;
    while (true) {
        while (i < in.size() && (in[i] == ' ' || in[i] == '\n')) ++i;
        if (i >= in.size()) break;
        if (need_word) { if (in[i] != 'a') return std::nullopt; size_t e = i + 1; while (e < in.size() && (in[e] == 'a' || in[e] == '1')) ++e; int len = int(e - i) * w; val = any ? val * 10 + len : len; any = true; i = e; need_word = false; }
        else { if (in[i] != sep) return std::nullopt; ++i; need_word = true; }
    }
    return (any && !need_word) ? std::optional<int>(val) : std::nullopt;
}
static std::vector<std::string> g_inputs;
static void check(const char* how, const P& p, char sep, int w) {
    for (const std::string& in : g_inputs) {
        ++g_cases; ++g_checks;
        std::ostringstream es; auto r = p.parse(string_buffer(std::string(in)), es);
        auto want = ref(in, sep, w);
        if (r != want) { fail(std::string(how) + " (separator '" + sep + "', weight " + std::to_string(w) + "), input '" + in + "': got " + (r ? std::to_string(*r) : std::string("empty")) + " expected " + (want ? std::to_string(*want) : std::string("empty"))); return; }
    }
}

int main(int argc, char** argv) {
    int n = argc > 1 ? std::atoi(argv[1]) : 5;
    const std::string part = argc > 2 ? argv[2] : "all";   // objects | rules | functors | all
    const bool do_objects = part == "all" || part == "objects", do_rules = part == "all" || part == "rules", do_functors = part == "all" || part == "functors";
    g_inputs = {""}; for (size_t lo = 0, l = 0; l < (size_t)n; ++l) { size_t hi = g_inputs.size(); for (size_t i = lo; i < hi; ++i) for (char c : {'a', '1', ',', ';', ' '}) g_inputs.push_back(g_inputs[i] + c); lo = hi; }
    if (do_objects) {
    {   P onstack = make(',', 1); check("object on the stack", onstack, ',', 1);
        P copy(onstack); check("copy-constructed", copy, ',', 1);
        P moved(std::move(onstack)); check("move-constructed", moved, ',', 1); }
    {   // the source of a copy is destroyed and its storage taken by a different parser of the same type
        std::optional<P> slot; slot.emplace(make(',', 1));
        P copy(*slot); P moved(std::move(*slot));
        slot.emplace(make(';', 7));
        check("copy whose source was destroyed and replaced in place", copy, ',', 1);
        check("moved-to object whose source was destroyed and replaced in place", moved, ',', 1);
        check("the replacing object", *slot, ';', 7); }
    {   auto heap = std::make_unique<P>(make(';', 3)); check("heap object built from a temporary", *heap, ';', 3);
        auto second = std::make_unique<P>(*heap); heap.reset(); { auto scribble = std::make_unique<P>(make(',', 9)); (void)scribble; }
        check("heap copy after its source was freed", *second, ';', 3); }
    {   std::vector<P> v; v.reserve(1); v.push_back(make(',', 2)); const P* before = &v[0]; for (int k = 0; k < 4; ++k) v.push_back(make(';', 5));
        check("first element of a vector that has reallocated", v[0], ',', 2); check("last element", v.back(), ';', 5); (void)before; }
    {   check("temporary returned from a function", make(',', 4), ',', 4); }
    {   // buffers are values too: cstring_buffer and string_buffer hold their text; what happens to the array / string they were built from afterwards does not matter
        P p = make(',', 1);
        char line[] = "a1,a"; cstring_buffer cb(line); std::string text = "a1,a"; string_buffer sb(text.c_str()); string_buffer sb2(std::string("a1,a"));
        auto want = ref("a1,a", ',', 1);
        line[0] = ','; line[1] = ','; text[0] = ','; text += std::string(64, ',');
        ++g_cases; ++g_checks; auto r1 = p.parse(cb), r2 = p.parse(sb), r3 = p.parse(sb2);
        if (r1 != want) fail("cstring_buffer built from an array that was overwritten afterwards: got " + (r1 ? std::to_string(*r1) : std::string("empty")) + ", the text it was built from gives " + (want ? std::to_string(*want) : std::string("empty")));
        if (r2 != want || r3 != want) fail("string_buffer built from a string that was changed afterwards parses differently");
        std::vector<cstring_buffer<5>> lines; for (const char* l : {"a,a1", "a1,a", "a,,a"}) { char tmp[5] = {}; std::snprintf(tmp, sizeof tmp, "%s", l); lines.emplace_back(tmp); }
        const char* texts[3] = {"a,a1", "a1,a", "a,,a"};
        for (int k = 0; k < 3; ++k) { ++g_cases; ++g_checks; auto r = p.parse(lines[k]); if (r != ref(texts[k], ',', 1)) fail(std::string("cstring_buffer collected from a reused line array, line '") + texts[k] + "': got " + (r ? std::to_string(*r) : std::string("empty"))); }
    }
    }
    if (do_rules || do_functors) {   // named rule / term / functor objects reused by the caller: building a parser from them (also with an explicit precedence) does not change them
        static constexpr nterm<std::string> e("e");
        static constexpr char_term minus('-', 1, associativity::ltor); static constexpr char_term star('*', 2, associativity::ltor);
        auto r_leaf = e('2') >= [](skip) { return std::string("2"); };
        auto r_sub = e(e, minus, e) >= [](std::string&& a, skip, std::string&& b) { return "(" + a + "-" + b + ")"; };
        auto r_mul = e(e, star, e) >= [](std::string&& a, skip, std::string&& b) { return "(" + a + "*" + b + ")"; };
        auto r_neg = e(minus, e) >= [](skip, std::string&& a) { return "(-" + a + ")"; };
        parser tight(e, terms('2', minus, star), nterms(e), rules(r_leaf, r_sub, r_mul, r_neg[3]));
        parser plain(e, terms('2', minus, star), nterms(e), rules(r_leaf, r_sub, r_mul, r_neg));
        parser tight2(e, terms('2', minus, star), nterms(e), rules(r_leaf, r_sub, r_mul, r_neg[3]));
        struct C { const char* in; const char* tight; const char* plain; };
        if (do_rules) for (C c : {C{"-2*2", "((-2)*2)", "(-(2*2))"}, C{"-2-2", "((-2)-2)", "((-2)-2)"}, C{"2*-2*2", "((2*(-2))*2)", "(2*(-(2*2)))"}}) {
            ++g_cases; ++g_checks;
            auto a = tight.parse(string_buffer(c.in)), b = plain.parse(string_buffer(c.in)), d = tight2.parse(string_buffer(c.in));
            if (!a || *a != c.tight || !d || *d != c.tight) fail(std::string("rule object with [3], input '") + c.in + "': grouped as " + (a ? *a : std::string("empty")) + " / " + (d ? *d : std::string("empty")) + ", expected " + c.tight);
            if (!b || *b != c.plain) fail(std::string("the same named rule object used WITHOUT [n] after r[3] was used elsewhere, input '") + c.in + "': grouped as " + (b ? *b : std::string("empty")) + ", expected " + c.plain);
        }
        // one stateful functor object handed (as an lvalue) to two typed terms
        if (do_functors) {
        struct Table { std::vector<std::string> names; int operator()(std::string_view sv) const { for (size_t k = 0; k < names.size(); ++k) if (names[k] == sv) return int(k); return -1000; } };
        Table table{{"zero", "one", "two", "three"}};
        static constexpr char low_pat[] = "[a-z]+"; static constexpr char up_pat[] = "[A-Z]+";
        typed_term low(regex_term<low_pat>("low"), table);
        struct Upper { Table t; int operator()(std::string_view sv) const { std::string s(sv); for (char& ch : s) ch = char(ch - 'A' + 'a'); return t(s) * 100; } };
        typed_term up(regex_term<up_pat>("up"), Upper{table});
        typed_term low2(regex_term<low_pat>("low"), table);
        static constexpr nterm<int> sum("sum");
        parser q(sum, terms(low, up), nterms(sum), rules(sum(low) >= [](const auto& t) { return t.get_value(); }, sum(up) >= [](const auto& t) { return t.get_value(); }, sum(sum, low) >= [](int a, const auto& t) { return a + t.get_value(); }, sum(sum, up) >= [](int a, const auto& t) { return a + t.get_value(); }));
        parser q2(sum, terms(low2), nterms(sum), rules(sum(low2) >= [](const auto& t) { return t.get_value(); }));
        ++g_cases; ++g_checks; auto r1 = q.parse(string_buffer("two THREE one")); if (!r1 || *r1 != 2 + 300 + 1) fail("stateful functor object shared by two typed terms: 'two THREE one' gives " + (r1 ? std::to_string(*r1) : std::string("empty")) + ", expected 303");
        ++g_cases; ++g_checks; auto r2 = q2.parse(string_buffer("three")); if (!r2 || *r2 != 3) fail("typed term built later from the same functor object: 'three' gives " + (r2 ? std::to_string(*r2) : std::string("empty")) + ", expected 3");
        ++g_cases; ++g_checks; if (table("two") != 2 || table.names.size() != 4) fail("the caller's functor object was modified by handing it to typed_term");
        }
    }
    std::string esc; for (char c : g_first) { if (c == '"' || c == '\\') esc += '\\'; if (c == '\n') { esc += ' '; continue; } esc += c; }
    std::printf("{\"cases\": %ld, \"checks\": %ld, \"failures\": %ld, \"first_failure\": \"%s\"}\n", g_cases, g_checks, g_fail, esc.c_str());
    return g_fail ? 1 : 0;
}
