// C08 (compiled grammars part): ordinary DSL grammars with error rules - the README example, recovery at two nesting
// levels, a grammar whose separator is a typed term with value type no_type, and a custom-lexer grammar with an error
// rule - on every input up to a bound. Oracle: the documented driver + recovery procedure (ref/lr1.hpp) on a reference
// LR(1) table of the same grammar: result, value tree (kept values are kept) and every message with its position.
#include <ctpg/ctpg.hpp>
#include "../ref/lr1.hpp"
#include <cstdio>
#include <cstdlib>
#include <functional>
#include <sstream>
#include <string>
#include <vector>

using namespace ctpg;
using namespace ctpg::ftors;
using namespace ctpg::buffers;

static long g_cases = 0, g_checks = 0, g_fail = 0, g_recovered = 0, g_failed_rec = 0; static std::string g_first;
static const char* g_gname = "";
static void fail(const std::string& in, const std::string& what) { ++g_fail; if (g_first.empty()) g_first = std::string(g_gname) + " input '" + in + "': " + what; }

// value = printed tree; terminals print as t<index>@<offset>+<length>
static const char* g_term_chars = "";   // char -> terminal index for the current grammar
static std::string show(const std::string& s) { return s; }
static std::string show(const term_value<char>& t) { const char* p = std::strchr(g_term_chars, t.get_value()); return "t" + std::to_string(p ? int(p - g_term_chars) : -1) + "@" + std::to_string(t.get_column() - 1) + "+1"; }
static int g_sv_term = 0;
static std::string show(const term_value<std::string_view>& t) { return "t" + std::to_string(g_sv_term) + "@" + std::to_string(t.get_column() - 1) + "+" + std::to_string(t.get_value().size()); }
static int g_nt_term = 0;
static std::string show(const term_value<no_type>& t) { return "t" + std::to_string(g_nt_term) + "@" + std::to_string(t.get_column() - 1) + "+1"; }
static std::string show(const no_type&) { return "E"; }
static std::string show(const term_value<size_t>& t) { return "t" + std::to_string(t.get_value() / 100) + "@" + std::to_string(t.get_column() - 1) + "+" + std::to_string(t.get_value() % 100); }
template<int K> struct R { template<class... A> std::string operator()(A&&... a) const { std::string o = "r" + std::to_string(K) + "("; bool first = true; ((o += (first ? "" : ","), o += show(a), first = false), ...); return o + ")"; } };

struct Expect { bool ok; std::string tree, messages; int nerr; int shifted[8]; };   // shifted[t]: how many terms t the documented driver shifts (= term functor calls)
struct RefG { ref::Gram g; ref::LR1 lr; std::vector<std::string> names; };
static void finish(RefG& G) { G.g.finish(); G.lr = ref::build_lr1(G.g, ref::analyse(G.g), true); if (G.lr.any_rr || G.lr.any_acc) { std::printf("{\"harness_error\": \"reference grammar has conflicts\"}\n"); std::exit(2); } }
static void rule(RefG& G, int lhs, std::initializer_list<int> rhs) { int r = G.g.R++; G.g.lhs[r] = lhs; G.g.n[r] = 0; for (int s : rhs) G.g.rhs[r][G.g.n[r]++] = s; }
static Expect expect_for(RefG& G, const std::vector<ref::Tok>& toks, bool lexfail, const std::string& in, int fail_off) {
    ref::Run run = ref::drive(G.g, ref::RefTable{G.lr}, toks, 4000, lexfail);
    Expect e{run.ok, run.ok ? run.show(run.root) : std::string(), "", run.nerrors, {}};
    for (const auto& nd : run.nodes) if (nd.kind == 0 && nd.a >= 0 && nd.a < 8) ++e.shifted[nd.a];
    size_t endp = in.size(); while (endp > 0 && (in[endp - 1] == ' ')) --endp; if (!toks.empty() && endp < size_t(toks.back().off + toks.back().len)) endp = size_t(toks.back().off + toks.back().len);
    size_t eofpos = in.size();
    for (size_t k = 0; k < run.err_tok.size(); ++k) {
        int ti = run.err_tok[k]; int off = ti < (int)toks.size() ? toks[ti].off : (int)eofpos;
        e.messages += "[1:" + std::to_string(off + 1) + "] PARSE: Syntax error: Unexpected '" + G.names[run.err_term[k]] + "'\n";
    }
    if (run.lex_error) e.messages += "[1:" + std::to_string(fail_off + 1) + "] PARSE: Unexpected character: " + std::string(1, in[fail_off]) + "\n";
    return e;
}
static void judge(const std::string& in, const std::optional<std::string>& r, const std::string& msgs, const Expect& ex) {
    ++g_cases; ++g_checks;
    if (ex.nerr && ex.ok) ++g_recovered; if (ex.nerr && !ex.ok) ++g_failed_rec;
    if (r.has_value() != ex.ok) { fail(in, std::string("parse ") + (r ? "returned " + *r : "failed") + ", documented recovery " + (ex.ok ? "yields " + ex.tree : "fails") + "; stream: " + msgs); return; }
    ++g_checks; if (ex.ok && *r != ex.tree) { fail(in, "returned " + *r + " expected " + ex.tree); return; }
    ++g_checks; if (msgs != ex.messages) fail(in, "stream '" + msgs + "' expected '" + ex.messages + "'");
}
// term functor accounting (C02: a term's functor runs once per term that is shifted; terms skipped during recovery, the term that triggers an error
// and the term a failing parse stops at never reach it)
static long g_calls[8];
static void judge_calls(const std::string& in, const Expect& ex, std::initializer_list<int> counted) {
    for (int t : counted) { ++g_checks; if (g_calls[t] != ex.shifted[t]) { fail(in, "the functor of term " + std::to_string(t) + " ran " + std::to_string(g_calls[t]) + " times, the documented driver shifts " + std::to_string(ex.shifted[t]) + " such terms"); return; } }
}
static std::vector<std::string> all_inputs(const std::string& alphabet, int n) { std::vector<std::string> v{""}; for (size_t lo = 0, l = 0; l < (size_t)n; ++l) { size_t hi = v.size(); for (size_t i = lo; i < hi; ++i) for (char c : alphabet) v.push_back(v[i] + c); lo = hi; } return v; }
// reference tokenizer for single-character terms (+ one multi-character class), skipping spaces
static bool tokenize(const std::string& in, const char* chars, char multi, int multi_idx, std::vector<ref::Tok>& toks, int& fail_off) {
    size_t p = 0;
    while (true) {
        while (p < in.size() && in[p] == ' ') ++p;
        if (p >= in.size()) return true;
        if (multi && in[p] == multi) { size_t q = p; while (q < in.size() && in[q] == multi) ++q; toks.push_back(ref::Tok{multi_idx, (int)p, int(q - p)}); p = q; continue; }
        const char* c = std::strchr(chars, in[p]);
        if (!c || !in[p]) { fail_off = (int)p; return false; }
        toks.push_back(ref::Tok{int(c - chars), (int)p, 1}); ++p;
    }
}

// ---------------------------------------------------------------- G1: the README error-recovery grammar
constexpr nterm<std::string> exprs("exprs"); constexpr nterm<std::string> expr("expr");
constexpr char number_pattern[] = "n+"; constexpr regex_term<number_pattern> number("number");
constexpr char_term o_plus('+', 1, associativity::ltor);
static void run_g1(int n) {
    g_gname = "README grammar (exprs -> eps | exprs expr ';' | exprs error ';')"; g_term_chars = "?+;"; g_sv_term = 0;
    static const parser p(exprs, terms(number, o_plus, ';'), nterms(exprs, expr), rules(
        exprs() >= R<0>{}, exprs(exprs, expr, ';') >= R<1>{}, exprs(exprs, error, ';') >= R<2>{},
        expr(expr, '+', expr) >= R<3>{}, expr(number) >= R<4>{}));
    RefG G; G.g.NT = 2; G.g.T = 3; int T0 = ref::TERM, E = ref::TERM + 4; G.names = {"number", "+", ";", "<eof>", "<error_recovery_token>"};
    rule(G, 0, {}); rule(G, 0, {0, 1, T0 + 2}); rule(G, 0, {0, E, T0 + 2}); rule(G, 1, {1, T0 + 1, 1}); rule(G, 1, {T0});
    G.g.tprec[1] = 1; G.g.tassoc[1] = ref::LTOR; finish(G);
    for (const std::string& in : all_inputs("n+; x", n)) {
        std::vector<ref::Tok> toks; int fo = -1; bool lexok = tokenize(in, "?+;", 'n', 0, toks, fo);
        Expect ex = expect_for(G, toks, !lexok, in, fo);
        std::ostringstream es; auto r = p.parse(string_buffer(std::string(in)), es);
        judge(in, r, es.str(), ex);
    }
}

// ---------------------------------------------------------------- G2: recovery at two nesting levels
constexpr nterm<std::string> stmts("stmts"); constexpr nterm<std::string> stmt("stmt");
static void run_g2(int n) {
    g_gname = "nested grammar (stmt -> a | ( stmts ) | ( error ))"; g_term_chars = "a;()";
    static const parser p(stmts, terms('a', ';', '(', ')'), nterms(stmts, stmt), rules(
        stmts() >= R<0>{}, stmts(stmts, stmt, ';') >= R<1>{}, stmts(stmts, error, ';') >= R<2>{},
        stmt('a') >= R<3>{}, stmt('(', stmts, ')') >= R<4>{}, stmt('(', error, ')') >= R<5>{}));
    RefG G; G.g.NT = 2; G.g.T = 4; int T0 = ref::TERM, E = ref::TERM + 5; G.names = {"a", ";", "(", ")", "<eof>", "<error_recovery_token>"};
    rule(G, 0, {}); rule(G, 0, {0, 1, T0 + 1}); rule(G, 0, {0, E, T0 + 1}); rule(G, 1, {T0}); rule(G, 1, {T0 + 2, 0, T0 + 3}); rule(G, 1, {T0 + 2, E, T0 + 3});
    finish(G);
    for (const std::string& in : all_inputs("a;()x", n)) {
        std::vector<ref::Tok> toks; int fo = -1; bool lexok = tokenize(in, "a;()", 0, 0, toks, fo);
        Expect ex = expect_for(G, toks, !lexok, in, fo);
        std::ostringstream es; auto r = p.parse(string_buffer(std::string(in)), es);
        judge(in, r, es.str(), ex);
    }
}

// ---------------------------------------------------------------- G3: a typed term whose value type is no_type, next to an error rule
constexpr nterm<std::string> lst("lst");
static void run_g3(int n) {
    g_gname = "typed no_type separator (lst -> a | lst , a | lst , error ;)"; g_term_chars = "a?;"; g_nt_term = 1;
    static const typed_term sep(char_term(','), create<no_type>{});
    static const parser p(lst, terms('a', sep, ';'), nterms(lst), rules(
        lst('a') >= R<0>{}, lst(lst, sep, 'a') >= R<1>{}, lst(lst, sep, error, ';') >= R<2>{}));
    RefG G; G.g.NT = 1; G.g.T = 3; int T0 = ref::TERM, E = ref::TERM + 4; G.names = {"a", ",", ";", "<eof>", "<error_recovery_token>"};
    rule(G, 0, {T0}); rule(G, 0, {0, T0 + 1, T0}); rule(G, 0, {0, T0 + 1, E, T0 + 2});
    finish(G);
    for (const std::string& in : all_inputs("a,; x", n)) {
        std::vector<ref::Tok> toks; int fo = -1; bool lexok = tokenize(in, "a,;", 0, 0, toks, fo);
        Expect ex = expect_for(G, toks, !lexok, in, fo);
        std::ostringstream es; std::optional<std::string> r; std::string thrown;
        try { r = p.parse(string_buffer(std::string(in)), es); } catch (const std::exception& e) { thrown = e.what(); }
        if (!thrown.empty()) { ++g_cases; ++g_checks; fail(in, "parse threw " + thrown + " (documented recovery " + (ex.ok ? "succeeds" : "fails") + ")"); continue; }
        judge(in, r, es.str(), ex);
    }
}

// ---------------------------------------------------------------- G4: custom lexer (the README shape: comma carries no_type) with an error rule
struct list_lexer {
    template<typename Iterator, typename ErrorStream>
    constexpr recognized_term match(match_options, source_point, Iterator start, Iterator end, ErrorStream&) {
        if (start == end) return recognized_term{};
        char c = *start;
        if (c == ',') return recognized_term(0, 1);
        if (c == ';') return recognized_term(2, 1);
        if (c == 'n') { size_t k = 0; Iterator it = start; while (it != end && *it == 'n') { ++it; ++k; } return recognized_term(1, k); }
        return recognized_term{};
    }
};
constexpr nterm<std::string> nl("nl");
static void run_g4(int n) {
    g_gname = "custom lexer with error rule (nl -> num | nl , num | nl error ;)"; g_nt_term = 0;
    static const custom_term comma(",", create<no_type>{});
    static const custom_term num("num", [](auto sv) { ++g_calls[1]; return size_t(100 + sv.size()); });
    static const custom_term semi(";", [](auto sv) { ++g_calls[2]; return size_t(200 + sv.size()); });
    static const parser p(nl, terms(comma, num, semi), nterms(nl), rules(
        nl(num) >= R<0>{}, nl(nl, comma, num) >= R<1>{}, nl(nl, error, semi) >= R<2>{}), use_lexer<list_lexer>{});
    RefG G; G.g.NT = 1; G.g.T = 3; int T0 = ref::TERM, E = ref::TERM + 4; G.names = {",", "num", ";", "<eof>", "<error_recovery_token>"};
    rule(G, 0, {T0 + 1}); rule(G, 0, {0, T0, T0 + 1}); rule(G, 0, {0, E, T0 + 2});
    finish(G);
    for (const std::string& in : all_inputs("n,; x", n)) {
        std::vector<ref::Tok> toks; int fo = -1; bool lexok = tokenize(in, ",?;", 'n', 1, toks, fo);
        Expect ex = expect_for(G, toks, !lexok, in, fo);
        std::ostringstream es; std::optional<std::string> r; std::string thrown;
        g_calls[1] = g_calls[2] = 0;
        try { r = p.parse(string_buffer(std::string(in)), es); } catch (const std::exception& e) { thrown = e.what(); }
        if (!thrown.empty()) { ++g_cases; ++g_checks; fail(in, "parse threw " + thrown + " (documented recovery " + (ex.ok ? "succeeds" : "fails") + ")"); continue; }
        judge(in, r, es.str(), ex); judge_calls(in, ex, {1, 2});
    }
}

// ---------------------------------------------------------------- G6: the README grammar with typed terms (generated lexer): functor calls are counted
static void run_g6(int n) {
    g_gname = "README grammar with typed terms (functor calls counted)"; g_term_chars = "?+;"; g_sv_term = 0;
    static const typed_term tnum(number, [](std::string_view sv) { ++g_calls[0]; return sv; });
    static const typed_term tplus(o_plus, [](std::string_view sv) { ++g_calls[1]; return sv[0]; });
    static const typed_term tsemi(char_term(';'), [](std::string_view sv) { ++g_calls[2]; return sv[0]; });
    static const parser p(exprs, terms(tnum, tplus, tsemi), nterms(exprs, expr), rules(
        exprs() >= R<0>{}, exprs(exprs, expr, tsemi) >= R<1>{}, exprs(exprs, error, tsemi) >= R<2>{},
        expr(expr, tplus, expr) >= R<3>{}, expr(tnum) >= R<4>{}));
    RefG G; G.g.NT = 2; G.g.T = 3; int T0 = ref::TERM, E = ref::TERM + 4; G.names = {"number", "+", ";", "<eof>", "<error_recovery_token>"};
    rule(G, 0, {}); rule(G, 0, {0, 1, T0 + 2}); rule(G, 0, {0, E, T0 + 2}); rule(G, 1, {1, T0 + 1, 1}); rule(G, 1, {T0});
    G.g.tprec[1] = 1; G.g.tassoc[1] = ref::LTOR; finish(G);
    for (const std::string& in : all_inputs("n+; x", n)) {
        std::vector<ref::Tok> toks; int fo = -1; bool lexok = tokenize(in, "?+;", 'n', 0, toks, fo);
        Expect ex = expect_for(G, toks, !lexok, in, fo);
        g_calls[0] = g_calls[1] = g_calls[2] = 0;
        std::ostringstream es; auto r = p.parse(string_buffer(std::string(in)), es);
        judge(in, r, es.str(), ex); judge_calls(in, ex, {0, 1, 2});
    }
}

// ---------------------------------------------------------------- G5: depth sweeps (one-dimensional, not exhaustive): recovery with very deep stacks
// values are hashes of the value tree, so that "values of states that are not discarded are kept" is still observable at depth 10^5
static long hv(long v) { return v; }
static long hv(const term_value<char>& t) { const char* p = std::strchr(g_term_chars, t.get_value()); return 7 + (p ? long(p - g_term_chars) : 99); }
static long hv(const no_type&) { return 5; }
template<int K> struct HR { template<class... A> long operator()(A&&... a) const { long h = K + 1; ((h = (h * 1000003 + hv(a)) % 2147483647), ...); return h; } };
static long ref_hash(const ref::Gram&, const ref::Run& run) {
    std::vector<long> val(run.nodes.size(), 0);
    for (size_t i = 0; i < run.nodes.size(); ++i) {     // children are created before their parents
        const ref::Node& nd = run.nodes[i];
        if (nd.kind == 0) val[i] = 7 + nd.a; else if (nd.kind == 2) val[i] = 5;
        else { long h = nd.a + 1; for (int k : nd.kids) h = (h * 1000003 + val[k]) % 2147483647; val[i] = h; }
    }
    return run.root >= 0 ? val[run.root] : -1;
}
constexpr nterm<long> ds("ds"); constexpr nterm<long> de("de");
template<class P> static void deep_case(const P& p, RefG& G, const char* chars, const std::string& in, const char* what) {
    g_term_chars = chars;
    std::vector<ref::Tok> toks; int fo = -1; tokenize(in, chars, 0, 0, toks, fo);
    ref::Run run = ref::drive(G.g, ref::RefTable{G.lr}, toks, 100000000, false);
    std::ostringstream es; auto r = p.parse(string_buffer(std::string(in)), es);
    ++g_cases; ++g_checks; if (run.nerrors && run.ok) ++g_recovered; if (run.nerrors && !run.ok) ++g_failed_rec;
    std::string label = std::string(what) + " (" + std::to_string(in.size()) + " terms)";
    if (run.horizon || run.undefined) { std::printf("{\"harness_error\": \"reference driver gave no verdict on a depth sweep\"}\n"); std::exit(2); }
    if (r.has_value() != run.ok) { fail(label, std::string("parse ") + (r ? "returned a value" : "failed") + ", documented recovery " + (run.ok ? "succeeds" : "fails") + " (it pops " + std::to_string(run.popped_states) + " states with " + std::to_string(run.max_depth) + " on the stack)"); return; }
    ++g_checks; if (run.ok && *r != ref_hash(G.g, run)) { fail(label, "the returned value is not the value of the documented recovery (states below the topmost one accepting the error symbol must keep their values; " + std::to_string(run.popped_states) + " states are popped, stack depth " + std::to_string(run.max_depth) + ")"); return; }
    std::string want; for (size_t k = 0; k < run.err_tok.size(); ++k) { int ti = run.err_tok[k]; want += "[1:" + std::to_string((ti < (int)toks.size() ? toks[ti].off : (int)in.size()) + 1) + "] PARSE: Syntax error: Unexpected '" + G.names[run.err_term[k]] + "'\n"; }
    ++g_checks; if (es.str() != want) fail(label, "stream '" + es.str().substr(0, 200) + "' expected '" + want.substr(0, 200) + "'");
}
static void run_g5(bool thorough) {
    g_gname = "depth sweep";
    static const parser pa(ds, terms('a', 'b', 'c'), nterms(ds), rules(ds('a', ds) >= HR<0>{}, ds('b') >= HR<1>{}, ds(error, 'b') >= HR<2>{}));
    RefG A; A.g.NT = 1; A.g.T = 3; { int T0 = ref::TERM, E = ref::TERM + 4; A.names = {"a", "b", "c", "<eof>", "<error_recovery_token>"}; rule(A, 0, {T0, 0}); rule(A, 0, {T0 + 1}); rule(A, 0, {E, T0 + 1}); finish(A); }
    static const parser pb(de, terms('(', ')', 'x'), nterms(de), rules(de('(', de, ')') >= HR<0>{}, de('x') >= HR<1>{}, de('(', error, ')') >= HR<2>{}));
    RefG B; B.g.NT = 1; B.g.T = 3; { int T0 = ref::TERM, E = ref::TERM + 4; B.names = {"(", ")", "x", "<eof>", "<error_recovery_token>"}; rule(B, 0, {T0, 0, T0 + 1}); rule(B, 0, {T0 + 2}); rule(B, 0, {T0, E, T0 + 1}); finish(B); }
    std::vector<size_t> depths = {1, 2, 15, 16, 17, 255, 256, 257, 1022, 1023, 1024, 1025, 4096, 65532, 65533, 65534, 65535, 65536, 65537, 70000};
    if (thorough) for (size_t d : {32767u, 32768u, 32769u, 131071u, 131072u, 131073u, 200000u, 300000u}) depths.push_back(d);
    // many recoveries in one parse: the documented procedure has no limit on the number of errors
    {
        static const parser pr(ds, terms('x', ';', 'y'), nterms(ds), rules(ds() >= HR<0>{}, ds(ds, 'x', ';') >= HR<1>{}, ds(ds, error, ';') >= HR<2>{}));
        RefG R; R.g.NT = 1; R.g.T = 3; { int T0 = ref::TERM, E = ref::TERM + 4; R.names = {"x", ";", "y", "<eof>", "<error_recovery_token>"}; rule(R, 0, {}); rule(R, 0, {0, T0, T0 + 1}); rule(R, 0, {0, E, T0 + 1}); finish(R); }
        for (size_t k : {10u, 999u, 1000u, 1001u, 1002u, 4096u, 65535u, 65536u, 70000u}) {
            if (!thorough && k > 5000) continue;
            std::string in; for (size_t i = 0; i < k; ++i) in += "y;x;";
            deep_case(pr, R, "x;y", in, "a parse with k syntax errors, each recovered");
            deep_case(pr, R, "x;y", in + "y", "a parse with k recovered syntax errors and a final unrecoverable one");
        }
    }
    for (size_t d : depths) {
        deep_case(pa, A, "abc", std::string(d, 'a') + "bcb", "right recursion, error after the last shift (one state popped)");
        deep_case(pa, A, "abc", std::string(d, 'a') + "cb", "right recursion, error in a state that accepts the error symbol (nothing popped)");
        deep_case(pa, A, "abc", std::string(d, 'a') + "bb", "right recursion, error on a surplus term");
        deep_case(pa, A, "abc", std::string(d, 'a') + "c", "right recursion, input ends while discarding");
        deep_case(pb, B, "()x", std::string(d, '(') + "xx" + std::string(d, ')'), "nesting, error inside the innermost parentheses");
        deep_case(pb, B, "()x", std::string(d, '(') + "x)x" + std::string(d, ')'), "nesting, error one level up");
        deep_case(pb, B, "()x", std::string(d, '(') + ")" + std::string(d, ')'), "nesting, error at the innermost opening parenthesis");
    }
}

int main(int argc, char** argv) {
    int n = argc > 1 ? std::atoi(argv[1]) : 5;
    run_g1(n); run_g2(n); run_g3(n); run_g4(n); run_g6(n); run_g5(n > 5);
    std::string esc; for (char c : g_first) { if (c == '"' || c == '\\') esc += '\\'; if (c == '\n') { esc += "\\n"; continue; } esc += c; }
    std::printf("{\"cases\": %ld, \"checks\": %ld, \"failures\": %ld, \"recovered\": %ld, \"recovery_failed\": %ld, \"first_failure\": \"%s\"}\n", g_cases, g_checks, g_fail, g_recovered, g_failed_rec, esc.c_str());
    return g_fail ? 1 : 0;
}
