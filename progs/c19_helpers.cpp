// C19: complete enumeration of the helper functors over positions x arities x value categories (black box).
// Every argument other than the documented positions is a Poison object (no copy, no move, no conversion),
// so any use of another argument does not compile; identity is checked by address.
#include <ctpg/ctpg.hpp>
#include <cstdio>
#include <string>
#include <tuple>
#include <vector>

using namespace ctpg::ftors;

static long g_checks = 0, g_fail = 0, g_cases = 0;
static std::string g_first;
static void check(bool ok, const char* what, int a, int b, int c) {
    ++g_checks;
    if (!ok) { ++g_fail; if (g_first.empty()) g_first = std::string(what) + " (" + std::to_string(a) + "," + std::to_string(b) + "," + std::to_string(c) + ")"; }
}

struct Poison { Poison() = default; Poison(const Poison&) = delete; Poison(Poison&&) = delete; Poison& operator=(const Poison&) = delete; int canary = 0x5a5a5a5a; };

static long g_copies = 0, g_moves = 0;
template<int I> struct Tag {
    int payload; bool moved_from = false;
    explicit Tag(int p = 1000 + I) : payload(p) {}
    Tag(const Tag& o) : payload(o.payload) { ++g_copies; }
    Tag(Tag&& o) noexcept : payload(o.payload) { o.moved_from = true; ++g_moves; }
    Tag& operator=(const Tag&) = default;
};
template<int I> struct MoveOnly {
    int payload; bool moved_from = false;
    explicit MoveOnly(int p = 2000 + I) : payload(p) {}
    MoveOnly(const MoveOnly&) = delete;
    MoveOnly(MoveOnly&& o) noexcept : payload(o.payload) { o.moved_from = true; ++g_moves; }
};
template<class From> struct Wrap { int payload; bool from_rvalue; Wrap(const From& f) : payload(f.payload), from_rvalue(false) {} Wrap(From&& f) : payload(f.payload), from_rvalue(true) { f.moved_from = true; } };

constexpr auto all_e() { return std::forward_as_tuple(_e1, _e2, _e3, _e4, _e5, _e6, _e7, _e8, _e9); }

// ---------------------------------------------------------------- _eN
template<size_t N, size_t A, size_t... I>
void test_e(std::index_sequence<I...>) {
    ++g_cases;
    const auto& e = std::get<N - 1>(all_e());
    {   // lvalues
        std::tuple<std::conditional_t<I + 1 == N, Tag<N>, Poison>...> s;
        long c0 = g_copies, m0 = g_moves;
        decltype(auto) r = e(std::get<I>(s)...);
        static_assert(std::is_same_v<decltype(r), Tag<N>&>, "_eN on an lvalue must return that lvalue");
        check(&r == &std::get<N - 1>(s), "_eN lvalue identity", N, A, 0);
        check(g_copies == c0 && g_moves == m0, "_eN lvalue: no copy/move", N, A, 0);
        const auto& cs = s;
        decltype(auto) rc = e(std::get<I>(cs)...);
        static_assert(std::is_same_v<decltype(rc), const Tag<N>&>, "_eN on a const lvalue must return const&");
        check(&rc == &std::get<N - 1>(s), "_eN const lvalue identity", N, A, 1);
        (void)std::initializer_list<int>{(check(reinterpret_cast<const Poison&>(std::get<I>(s)).canary == 0x5a5a5a5a || I + 1 == N, "poison intact", N, A, (int)I), 0)...};
    }
    {   // rvalues, move-only
        std::tuple<std::conditional_t<I + 1 == N, MoveOnly<N>, Poison>...> s;
        long m0 = g_moves;
        decltype(auto) r = e(std::move(std::get<I>(s))...);
        static_assert(std::is_same_v<decltype(r), MoveOnly<N>&&>, "_eN on an rvalue must return an rvalue reference");
        check(&r == &std::get<N - 1>(s), "_eN rvalue identity", N, A, 2);
        check(!std::get<N - 1>(s).moved_from && g_moves == m0, "_eN rvalue: value not moved from", N, A, 2);
        MoveOnly<N> sink(std::move(r));   // the result can be moved from
        check(sink.payload == 2000 + (int)N, "_eN rvalue payload", N, A, 2);
    }
}
template<size_t N, size_t... A> void test_e_arities(std::index_sequence<A...>) { (test_e<N, N + A>(std::make_index_sequence<N + A>{}), ...); }
template<size_t... N> void test_e_all(std::index_sequence<N...>) { (test_e_arities<N + 1>(std::make_index_sequence<9 - N>{}), ...); }

// ---------------------------------------------------------------- construct<T, I>
template<size_t N, size_t A, size_t... I>
void test_construct(std::index_sequence<I...>) {
    ++g_cases;
    {
        std::tuple<std::conditional_t<I + 1 == N, Tag<N>, Poison>...> s;
        auto r = construct<Wrap<Tag<N>>, N>{}(std::get<I>(s)...);
        static_assert(std::is_same_v<decltype(r), Wrap<Tag<N>>>);
        check(r.payload == 1000 + (int)N && !r.from_rvalue && !std::get<N - 1>(s).moved_from, "construct from lvalue", N, A, 0);
        auto r2 = construct<Wrap<Tag<N>>, N>{}(std::move(std::get<I>(s))...);
        check(r2.payload == 1000 + (int)N && r2.from_rvalue, "construct from rvalue forwards the value category", N, A, 1);
    }
    {
        std::tuple<std::conditional_t<I + 1 == N, MoveOnly<N>, Poison>...> s;
        auto r = construct<Wrap<MoveOnly<N>>, N>{}(std::move(std::get<I>(s))...);
        check(r.payload == 2000 + (int)N && r.from_rvalue, "construct from move-only rvalue", N, A, 2);
    }
}
template<size_t N, size_t... A> void test_construct_arities(std::index_sequence<A...>) { (test_construct<N, N + A>(std::make_index_sequence<N + A>{}), ...); }
template<size_t... N> void test_construct_all(std::index_sequence<N...>) { (test_construct_arities<N + 1>(std::make_index_sequence<9 - N>{}), ...); }

// ---------------------------------------------------------------- push_back<C, A> / emplace_back<C, A>
template<class Elem> using Cont = std::vector<Elem>;
template<size_t C, size_t Ap, size_t Ar, size_t... I>
void test_push(std::index_sequence<I...>) {
    ++g_cases;
    using E = Tag<Ap>;
    {   // container and element as rvalues (what the parser passes)
        std::tuple<std::conditional_t<I + 1 == C, Cont<E>, std::conditional_t<I + 1 == Ap, E, Poison>>...> s;
        auto& cont = std::get<C - 1>(s); cont.reserve(8); cont.push_back(E(7)); const E* data = cont.data();
        decltype(auto) r = push_back<C, Ap>{}(std::move(std::get<I>(s))...);
        static_assert(std::is_same_v<decltype(r), Cont<E>&&>, "push_back must return the container by reference, not a copy");
        check(&r == &cont, "push_back returns the same container", C, Ap, Ar);
        check(cont.size() == 2 && cont.data() == data, "push_back appended exactly one element in place", C, Ap, Ar);
        check(cont.size() == 2 && cont[1].payload == 1000 + (int)Ap && cont[0].payload == 7, "push_back appended the A-th value", C, Ap, Ar);
    }
    {   // container and element as lvalues
        std::tuple<std::conditional_t<I + 1 == C, Cont<E>, std::conditional_t<I + 1 == Ap, E, Poison>>...> s;
        auto& cont = std::get<C - 1>(s); cont.reserve(8);
        decltype(auto) r = push_back<C, Ap>{}(std::get<I>(s)...);
        static_assert(std::is_same_v<decltype(r), Cont<E>&&>);
        check(&r == &cont && cont.size() == 1 && cont[0].payload == 1000 + (int)Ap, "push_back on lvalues", C, Ap, Ar);
        check(!std::get<Ap - 1>(s).moved_from, "push_back copies the element (const Arg&)", C, Ap, Ar);
    }
}
template<size_t C, size_t Ap, size_t Ar, size_t... I>
void test_emplace(std::index_sequence<I...>) {
    ++g_cases;
    using E = MoveOnly<Ap>;
    std::tuple<std::conditional_t<I + 1 == C, Cont<E>, std::conditional_t<I + 1 == Ap, E, Poison>>...> s;
    auto& cont = std::get<C - 1>(s); cont.reserve(8); cont.emplace_back(E(7)); const E* data = cont.data();
    decltype(auto) r = emplace_back<C, Ap>{}(std::move(std::get<I>(s))...);
    static_assert(std::is_same_v<decltype(r), Cont<E>&&>, "emplace_back must return the container by reference, not a copy");
    check(&r == &cont, "emplace_back returns the same container", C, Ap, Ar);
    check(cont.size() == 2 && cont.data() == data && cont[1].payload == 2000 + (int)Ap && cont[0].payload == 7, "emplace_back appended the A-th value", C, Ap, Ar);
    check(std::get<Ap - 1>(s).moved_from, "emplace_back moved the element in", C, Ap, Ar);
}
template<size_t C, size_t Ap, size_t... Extra>
void test_pair_arities(std::index_sequence<Extra...>) {
    constexpr size_t M = C > Ap ? C : Ap;
    (test_push<C, Ap, M + Extra>(std::make_index_sequence<M + Extra>{}), ...);
    (test_emplace<C, Ap, M + Extra>(std::make_index_sequence<M + Extra>{}), ...);
}
template<size_t C, size_t Ap> void test_pair() { if constexpr (C != Ap) { constexpr size_t M = C > Ap ? C : Ap; test_pair_arities<C, Ap>(std::make_index_sequence<10 - M>{}); } }
template<size_t C, size_t... Ap> void test_pairs_row(std::index_sequence<Ap...>) { (test_pair<C, Ap + 1>(), ...); }
template<size_t... C> void test_pairs(std::index_sequence<C...>) { (test_pairs_row<C + 1>(std::make_index_sequence<9>{}), ...); }

// defaults: push_back<> == push_back<1,2>, emplace_back<> == emplace_back<1,2>, construct<T> == construct<T,1>
static void test_defaults() {
    ++g_cases;
    std::vector<Tag<2>> v; Tag<2> t(5); Poison p;
    decltype(auto) r = push_back<>{}(std::move(v), std::move(t), p);
    check(&r == &v && v.size() == 1 && v[0].payload == 5, "push_back<> defaults to <1,2>", 1, 2, 3);
    std::vector<MoveOnly<2>> w; MoveOnly<2> m(6);
    decltype(auto) r2 = emplace_back<>{}(std::move(w), std::move(m), p);
    check(&r2 == &w && w.size() == 1 && w[0].payload == 6, "emplace_back<> defaults to <1,2>", 1, 2, 3);
    Tag<1> t1(9);
    auto c = construct<Wrap<Tag<1>>>{}(t1, p, p);
    check(c.payload == 9, "construct<T> defaults to position 1", 1, 3, 0);
    // the documented form of the construction is T{value} (list initialisation): for a T with an initializer_list constructor that is a one-element
    // list, not T(value) - the README builds its comma list with construct<std::vector<int>, 1>
    ++g_cases;
    int three = 3;
    auto lv = construct<std::vector<int>, 1>{}(three, p);
    check(lv.size() == 1 && lv[0] == 3, "construct<std::vector<int>,1> from 3 is the list {3}", 1, 2, 1);
    auto lv2 = construct<std::vector<int>, 2>{}(p, 5, p);
    check(lv2.size() == 1 && lv2[0] == 5, "construct<std::vector<int>,2> from 5 is the list {5}", 2, 3, 1);
    auto ls = construct<std::string, 1>{}('x');
    check(ls == "x", "construct<std::string,1> from a char is the one-character string", 1, 1, 1);
}

// a "dynamic value" type constructible from anything: copying a val<Greedy> (typed_term and custom_term copy their functor from a non-const lvalue) must copy the held value,
// not wrap the functor object itself into a new Greedy
struct Greedy { int kind = 0; int number = 0; Greedy() = default; Greedy(int n) : kind(1), number(n) {} template<class X, class = std::enable_if_t<!std::is_same_v<std::decay_t<X>, Greedy> && !std::is_same_v<std::decay_t<X>, int>>> Greedy(X&&) : kind(2) {} };
static void test_val_greedy() {
    ++g_cases;
    auto v = val(Greedy(7));
    auto w = v;                       // copy from a non-const lvalue
    const auto cv = v; auto x = cv;   // copy from a const lvalue
    Poison p;
    Greedy a = v(p), b = w(p, p), c = x();
    check(a.kind == 1 && a.number == 7, "val(Greedy(7)) returns the value", 0, 1, 0);
    check(b.kind == 1 && b.number == 7, "a copy of val(Greedy(7)) made from a non-const lvalue returns the value", 0, 2, 1);
    check(c.kind == 1 && c.number == 7, "a copy of val(Greedy(7)) made from a const lvalue returns the value", 0, 0, 2);
}

// ---------------------------------------------------------------- val / create
template<size_t... I> void test_val_create(std::index_sequence<I...>) {
    ++g_cases;
    std::tuple<std::conditional_t<(I >= 0), Poison, Poison>...> s;
    auto v = val(42)(std::get<I>(s)...);
    static_assert(std::is_same_v<decltype(v), int>);
    check(v == 42, "val(v) returns v", sizeof...(I), 0, 0);
    auto holder = val(std::string("abc"));
    auto vs = holder(std::move(std::get<I>(s))...);
    auto vs2 = holder(std::get<I>(s)...);
    check(vs == "abc" && vs2 == "abc", "val(v) returns v on every call", sizeof...(I), 0, 1);
    auto c = create<std::vector<int>>{}(std::get<I>(s)...);
    static_assert(std::is_same_v<decltype(c), std::vector<int>>);
    check(c.empty(), "create<T> returns a default T", sizeof...(I), 0, 2);
    struct D { int x = 17; };
    auto d = create<D>{}(std::move(std::get<I>(s))...);
    check(d.x == 17, "create<T> default-constructs", sizeof...(I), 0, 3);
}
template<size_t... A> void test_val_create_all(std::index_sequence<A...>) { (test_val_create(std::make_index_sequence<A>{}), ...); }

int main() {
    test_e_all(std::make_index_sequence<9>{});
    test_construct_all(std::make_index_sequence<9>{});
    test_pairs(std::make_index_sequence<9>{});
    test_defaults();
    test_val_greedy();
    test_val_create_all(std::make_index_sequence<10>{});
    std::printf("{\"cases\": %ld, \"checks\": %ld, \"failures\": %ld, \"first_failure\": \"%s\"}\n", g_cases, g_checks, g_fail, g_first.c_str());
    return g_fail ? 1 : 0;
}
