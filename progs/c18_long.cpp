// C18 (compiled part): a custom lexer whose answers are long. One-dimensional sweep (not exhaustive) of answer lengths around 2^8, 2^16 and
// 2^17: the parser must consume exactly the returned length, hand exactly that slice to the custom term's functor, ask for the next term
// right behind it (after whitespace) and report the true position of what follows. Also: answers for terms with indices 2..4 of a 5-term
// set. Black box.
#include <ctpg/ctpg.hpp>
#include <cstdio>
#include <sstream>
#include <string>
#include <vector>

using namespace ctpg;
using namespace ctpg::buffers;

struct Ask { size_t off; unsigned line, col; };
static std::vector<Ask> g_asks; static const char* g_base = nullptr;
struct Slice { int term; size_t off, len; unsigned line, col; };
static std::vector<Slice> g_slices;

// terms: 0 ';'  1 word (run of x)  2 num (run of 7)  3 '='  4 blob (run of anything between '<' and '>', may span lines)
struct long_lexer {
    template<typename Iterator, typename ErrorStream>
    constexpr recognized_term match(match_options, source_point sp, Iterator start, Iterator end, ErrorStream&) {
        g_asks.push_back(Ask{size_t(&*start - g_base), unsigned(sp.line), unsigned(sp.column)});
        if (start == end) return recognized_term{};
        char c = *start;
        if (c == ';') return recognized_term(0, 1);
        if (c == '=') { recognized_term r; r.term_idx = 3; r.len = 1; return r; }   // "a simple struct with two members": filled in instead of using the constructor
        if (c == 'x' || c == '7') { size_t n = 0; Iterator it = start; while (it != end && *it == c) { ++it; ++n; } if (c == '7') { recognized_term r{}; r.len = n; r.term_idx = 2; return r; } return recognized_term(1, n); }
        if (c == '<') { size_t n = 0; Iterator it = start; while (it != end) { char d = *it; ++it; ++n; if (d == '>') return recognized_term(4, n); } return recognized_term{}; }
        return recognized_term{};
    }
};
template<int K> struct Rec { int operator()(std::string_view sv) const { g_slices.push_back(Slice{K, size_t(sv.data() - g_base), sv.size(), 0, 0}); return int(g_slices.size()) - 1; } };
constexpr nterm<int> doc("doc"); constexpr nterm<int> st("st");
static void note(const term_value<int>& t) { Slice& s = g_slices[size_t(t.get_value())]; s.line = unsigned(t.get_line()); s.col = unsigned(t.get_column()); }

static long g_cases = 0, g_checks = 0, g_fail = 0; static std::string g_first;
static void fail(const std::string& label, const std::string& what) { ++g_fail; if (g_first.empty()) g_first = label + ": " + what; }

int main() {
    static const custom_term semi(";", Rec<0>{}); static const custom_term word("word", Rec<1>{}); static const custom_term num("num", Rec<2>{});
    static const custom_term eq("=", Rec<3>{}); static const custom_term blob("blob", Rec<4>{});
    static const parser p(doc, terms(semi, word, num, eq, blob), nterms(doc, st), rules(
        doc() >= [] { return 0; },
        doc(doc, st, semi) >= [](int n, int, const term_value<int>& s) { note(s); return n + 1; },
        st(word, eq, num) >= [](const term_value<int>& a, const term_value<int>& b, const term_value<int>& c) { note(a); note(b); note(c); return 0; },
        st(blob) >= [](const term_value<int>& a) { note(a); return 0; },
        st(word) >= [](const term_value<int>& a) { note(a); return 0; }), use_lexer<long_lexer>{});
    for (size_t n : {1u, 255u, 256u, 257u, 65534u, 65535u, 65536u, 65537u, 70000u, 131071u, 131072u, 200000u}) {
        std::vector<std::pair<std::string, std::string>> inputs = {
            {"word of n bytes", std::string(n, 'x') + ";"},
            {"word = num, both of n bytes", std::string(n, 'x') + " = " + std::string(n, '7') + " ;"},
            {"blob of n+2 bytes with a newline in the middle, then a word", "<" + std::string(n / 2, 'a') + "\n" + std::string(n - n / 2, 'b') + ">;\n xx;"},
            {"n statements", [&] { std::string s; for (size_t i = 0; i < std::min<size_t>(n, 70000); ++i) s += (i % 2) ? "x=7;" : "xx;"; return s; }()},
        };
        for (auto& pr : inputs) {
            const std::string& what = pr.first; const std::string& in = pr.second;
            std::string label = what + " (n = " + std::to_string(n) + ")";
            ++g_cases; g_asks.clear(); g_slices.clear(); g_base = in.data();
            // reference tokenisation of the same text (what the lexer above answers at each term start, default whitespace skipping)
            struct Tok { int term; size_t off, len; unsigned line, col; }; std::vector<Tok> want; size_t i = 0; unsigned line = 1, col = 1;
            auto adv = [&](size_t to) { for (; i < to; ++i) { if (in[i] == '\n') { ++line; col = 1; } else ++col; } };
            while (true) {
                size_t q = i; while (q < in.size() && (in[q] == ' ' || in[q] == '\n' || in[q] == '\t')) ++q; adv(q);
                if (i >= in.size()) break;
                char c = in[i]; size_t len = 1; int term = c == ';' ? 0 : c == '=' ? 3 : c == 'x' ? 1 : c == '7' ? 2 : 4;
                if (c == 'x' || c == '7') { len = 0; while (i + len < in.size() && in[i + len] == c) ++len; }
                if (c == '<') { len = in.find('>', i) - i + 1; }
                want.push_back(Tok{term, i, len, line, col}); adv(i + len);
            }
            std::ostringstream es; auto r = p.parse(string_view_buffer(std::string_view(in)), es);
            ++g_checks; if (!r.has_value() || !es.str().empty()) { fail(label, "a sentence was rejected: " + es.str().substr(0, 120)); continue; }
            // every term reached a functor with exactly its slice and its true position
            ++g_checks; if (g_slices.size() != want.size()) { fail(label, std::to_string(g_slices.size()) + " lexemes reached the term functors, the lexer delivered " + std::to_string(want.size()) + " terms"); continue; }
            for (size_t k = 0; k < want.size(); ++k) {
                const Slice& s = g_slices[k]; const Tok& w = want[k]; ++g_checks;
                if (s.term != w.term || s.off != w.off || s.len != w.len) { fail(label, "term " + std::to_string(k) + ": functor of term " + std::to_string(s.term) + " got the slice at " + std::to_string(s.off) + " of length " + std::to_string(s.len) + ", the lexer answered term " + std::to_string(w.term) + " at " + std::to_string(w.off) + " of length " + std::to_string(w.len)); break; }
                if (s.line != w.line || s.col != w.col) { fail(label, "term " + std::to_string(k) + " at offset " + std::to_string(w.off) + ": position [" + std::to_string(s.line) + ":" + std::to_string(s.col) + "], true position [" + std::to_string(w.line) + ":" + std::to_string(w.col) + "]"); break; }
            }
            // match() is asked exactly at the term starts, with the true position (the end of input is detected by the parser itself)
            ++g_checks;
            if (g_asks.size() != want.size()) fail(label, "match() was called " + std::to_string(g_asks.size()) + " times for " + std::to_string(want.size()) + " terms");
            else for (size_t k = 0; k < want.size(); ++k) if (g_asks[k].off != want[k].off || g_asks[k].line != want[k].line || g_asks[k].col != want[k].col) { fail(label, "request " + std::to_string(k) + " was made at offset " + std::to_string(g_asks[k].off) + " [" + std::to_string(g_asks[k].line) + ":" + std::to_string(g_asks[k].col) + "], the term starts at " + std::to_string(want[k].off) + " [" + std::to_string(want[k].line) + ":" + std::to_string(want[k].col) + "]"); break; }
        }
    }
    std::string esc; for (char c : g_first) { if (c == '"' || c == '\\') esc += '\\'; if (c == '\n') { esc += ' '; continue; } esc += c; }
    std::printf("{\"cases\": %ld, \"checks\": %ld, \"failures\": %ld, \"first_failure\": \"%s\"}\n", g_cases, g_checks, g_fail, esc.c_str());
    return g_fail ? 1 : 0;
}
