// C05 (compiled part): the DSL spellings of an explicit rule precedence. The same operator grammar
//     expr -> '2' | expr '-' expr | expr '*' expr | '-' expr [3]        '-' (1, ltor)   '*' (2, ltor)
// is written with the precedence attached before / after a '>=' functor and before / after a '>>=' functor, and with explicit precedences on
// the binary rules as well (overriding the terms' levels). Every input up to a bound over {2, -, *, space} is parsed; the grouping (printed
// tree) must equal the one an independent precedence-climbing parser produces from the declared levels. Black box.
#include <ctpg/ctpg.hpp>
#include <cstdio>
#include <cstdlib>
#include <functional>
#include <sstream>
#include <string>
#include <vector>

using namespace ctpg;
using namespace ctpg::ftors;
using namespace ctpg::buffers;

using S = std::string;
constexpr nterm<S> expr("expr");
constexpr char_term o_minus('-', 1, associativity::ltor);
constexpr char_term o_mul('*', 2, associativity::ltor);
// the same symbols without any declared precedence: all levels come from explicit rule precedences
constexpr char_term p_minus('-'); constexpr char_term p_mul('*');

static auto leaf = [](auto&&) { return S("2"); };
static auto neg = [](skip, S&& a) { return "(-" + a + ")"; };
static auto sub = [](S&& a, skip, S&& b) { return "(" + a + "-" + b + ")"; };
static auto mul = [](S&& a, skip, S&& b) { return "(" + a + "*" + b + ")"; };
static auto cneg = [](int& ctx, skip, S&& a) { ++ctx; return "(-" + a + ")"; };
static auto csub = [](int& ctx, S&& a, skip, S&& b) { ++ctx; return "(" + a + "-" + b + ")"; };
static auto cmul = [](int& ctx, S&& a, skip, S&& b) { ++ctx; return "(" + a + "*" + b + ")"; };

// independent reference: precedence climbing. unary_prec: level of the prefix minus; sub_prec / mul_prec: levels of the binary operators (left associative)
struct Ref {
    const S& s; size_t p = 0; int up, sp, mp; bool ok = true;
    Ref(const S& s, int up, int sp, int mp) : s(s), up(up), sp(sp), mp(mp) {}
    void ws() { while (p < s.size() && s[p] == ' ') ++p; }
    int prec_of(char c) const { return c == '-' ? sp : c == '*' ? mp : -1000; }
    S primary() { ws(); if (p < s.size() && s[p] == '2') { ++p; return "2"; } if (p < s.size() && s[p] == '-') { ++p; S a = parse(up, true); return "(-" + a + ")"; } ok = false; return ""; }
    // parse an expression whose binary operators all bind tighter than `min` (strictly, when `strict`): this is what "reduce iff rule precedence > term
    // precedence, or equal and left associative" means for the operand of an operator of level `min`
    S parse(int min, bool strict) {
        S lhs = primary();
        while (ok) {
            ws(); if (p >= s.size()) break;
            char c = s[p]; int pr = prec_of(c); if (pr == -1000) { ok = false; break; }
            if (strict ? pr <= min : pr < min) break;
            ++p; S rhs = parse(pr, true);           // left associative: the right operand takes only strictly tighter operators
            lhs = "(" + lhs + c + rhs + ")";
        }
        return lhs;
    }
    bool run(S& out) { out = parse(-999, false); ws(); return ok && p == s.size(); }
};

static long g_cases = 0, g_checks = 0, g_fail = 0, g_accept = 0; static S g_first;
template<bool contextual, class P> static void run_variant(const char* name, const P& p, int up, int sp, int mp, const std::vector<S>& inputs) {
    for (const S& in : inputs) {
        ++g_cases; ++g_checks;
        S want; Ref r(in, up, sp, mp); bool wok = r.run(want);
        std::ostringstream es; std::optional<S> got; int ctx = 0;
        if constexpr (contextual) got = p.context_parse(ctx, string_buffer(S(in)), es); else got = p.parse(string_buffer(S(in)), es);
        if (got.has_value() != wok || (wok && *got != want)) { ++g_fail; if (g_first.empty()) g_first = S(name) + ", input '" + in + "': grouped as " + (got ? *got : S("<rejected>")) + ", the declared precedences give " + (wok ? want : S("<rejected>")); }
        if (wok) ++g_accept;
    }
}

struct op_lexer {
    template<typename Iterator, typename ErrorStream>
    constexpr recognized_term match(match_options, source_point, Iterator start, Iterator end, ErrorStream&) {
        if (start == end) return recognized_term{};
        char c = *start; return c == '2' ? recognized_term(0, 1) : c == '-' ? recognized_term(1, 1) : c == '*' ? recognized_term(2, 1) : recognized_term{};
    }
};

int main(int argc, char** argv) {
    int n = argc > 1 ? std::atoi(argv[1]) : 6;
    std::vector<S> inputs{""}; const char al[] = {'2', '-', '*', ' '};
    for (size_t lo = 0, l = 0; l < (size_t)n; ++l) { size_t hi = inputs.size(); for (size_t i = lo; i < hi; ++i) for (char c : al) inputs.push_back(inputs[i] + c); lo = hi; }
    for (const char* x : {"-2*2-2*-2", "2-2*2-2*2-2", "--2*2", "2*-2*2", "-2--2", "2*2*2-2-2*2"}) inputs.push_back(x);
    const bool only_custom = argc > 2 && S(argv[2]) == "custom";
#define TERMS terms('2', o_minus, o_mul)
#define BIN expr('2') >= leaf, expr(expr, '-', expr) >= sub, expr(expr, '*', expr) >= mul
    if (!only_custom) {
    { static const parser p(expr, TERMS, nterms(expr), rules(BIN, expr('-', expr)[3] >= neg)); run_variant<false>("[3] >= f", p, 3, 1, 2, inputs); }
    { static const parser p(expr, TERMS, nterms(expr), rules(BIN, (expr('-', expr) >= neg)[3])); run_variant<false>("(>= f)[3]", p, 3, 1, 2, inputs); }
    { static const parser p(expr, TERMS, nterms(expr), rules(BIN, expr('-', expr)[3] >>= cneg)); run_variant<true>("[3] >>= f", p, 3, 1, 2, inputs); }
    { static const parser p(expr, TERMS, nterms(expr), rules(BIN, (expr('-', expr) >>= cneg)[3])); run_variant<true>("(>>= f)[3]", p, 3, 1, 2, inputs); }
    // the prefix operator below '*' but above '-'
    { static const parser p(expr, TERMS, nterms(expr), rules(BIN, expr('-', expr)[2] >>= cneg)); run_variant<true>("[2] >>= f (unary level equal to '*', whose last term '-' is ltor: reduce)", p, 2, 1, 2, inputs); }
    // without an explicit precedence the prefix rule takes the level of its last term '-' (1)
    { static const parser p(expr, TERMS, nterms(expr), rules(BIN, expr('-', expr) >>= cneg)); run_variant<true>("no explicit precedence on the prefix rule", p, 1, 1, 2, inputs); }
    // explicit precedences on the binary rules (contextual and not), overriding the terms' levels: '-' binds tighter than '*'
    { static const parser p(expr, TERMS, nterms(expr), rules(expr('2') >= leaf, expr(expr, '-', expr)[5] >>= csub, (expr(expr, '*', expr) >= mul)[-1], expr('-', expr)[6] >= neg));
      // rule levels: sub 5, mul -1 (an explicit 0 would mean "absent"), neg 6 ; term levels (for the shift side): '-' 1, '*' 2. Reduce iff rule level > term level (equal: last term ltor).
      // after "a - b" (level 5): next '-' (1) or '*' (2) -> reduce. after "a * b" (level -1): next '-' (1) or '*' (2) -> shift. after "- a" (6): reduce.
      struct Mixed { static bool run(const S& in, S& out) {
          // a * b never reduces before the end of its right operand, a - b reduces at once: '*' is right-grouping and loosest, '-' left-grouping and tighter, prefix tightest
          std::vector<char> t; for (char c : in) if (c != ' ') t.push_back(c);
          size_t p = 0; bool ok = true;
          std::function<S()> prim, term, ex;
          prim = [&]() -> S { if (p < t.size() && t[p] == '2') { ++p; return "2"; } if (p < t.size() && t[p] == '-') { ++p; S a = prim(); return "(-" + a + ")"; } ok = false; return ""; };
          term = [&]() -> S { S l = prim(); while (ok && p < t.size() && t[p] == '-') { ++p; S r = prim(); l = "(" + l + "-" + r + ")"; } return l; };
          ex = [&]() -> S { S l = term(); if (ok && p < t.size() && t[p] == '*') { ++p; S r = ex(); l = "(" + l + "*" + r + ")"; } return l; };
          out = ex(); return ok && p == t.size(); } };
      for (const S& in : inputs) {
          ++g_cases; ++g_checks; S want; bool wok = Mixed::run(in, want);
          std::ostringstream es; int ctx = 0; auto got = p.context_parse(ctx, string_buffer(S(in)), es);
          if (got.has_value() != wok || (wok && *got != want)) { ++g_fail; if (g_first.empty()) g_first = "explicit precedences on binary rules ([5] >>= f, (>= f)[-1], [6] >= f), input '" + in + "': grouped as " + (got ? *got : S("<rejected>")) + ", the declared precedences give " + (wok ? want : S("<rejected>")); }
          if (wok) ++g_accept;
      } }
    {   // precedence and associativity carried by a typed term (wrapping a char term and a string term), by a string term and by a regex term:
        // '-' (1, ltor) typed ; "**" (2, rtol) typed string term ; %+ (3, ltor) regex term
        static constexpr char_term c_minus('-', 1, associativity::ltor);
        static constexpr string_term s_pow("**", 2, associativity::rtol);
        static constexpr char mod_pat[] = "%+"; static constexpr regex_term<mod_pat> r_mod("mod", 3, associativity::ltor);
        static const typed_term t_minus(c_minus, [](auto sv) { return S(sv); });
        static const typed_term t_pow(s_pow, [](auto sv) { return S(sv); });
        static const parser p(expr, terms('2', t_minus, t_pow, r_mod), nterms(expr), rules(
            expr('2') >= leaf,
            expr(expr, t_minus, expr) >= [](S&& a, auto&&, S&& b) { return "(" + a + "-" + b + ")"; },
            expr(expr, t_pow, expr) >= [](S&& a, auto&&, S&& b) { return "(" + a + "^" + b + ")"; },
            expr(expr, r_mod, expr) >= [](S&& a, auto&&, S&& b) { return "(" + a + "%" + b + ")"; }));
        std::vector<S> in2{""}; const char al2[] = {'2', '-', '*', '%', ' '};
        for (size_t lo = 0, l = 0; l < (size_t)n; ++l) { size_t hi = in2.size(); for (size_t i = lo; i < hi; ++i) for (char c : al2) in2.push_back(in2[i] + c); lo = hi; }
        for (const char* x : {"2**2**2-2%2%%2", "2-2**2%2-2", "2%2**2**2%2"}) in2.push_back(x);
        for (const S& in : in2) {
            ++g_cases; ++g_checks;
            // tokens: 0 operand, 1 '-', 2 "**", 3 %+
            std::vector<int> t; bool lexok = true;
            for (size_t i = 0; i < in.size() && lexok;) { char c = in[i]; if (c == ' ') ++i; else if (c == '2') { t.push_back(0); ++i; } else if (c == '-') { t.push_back(1); ++i; } else if (c == '*' && i + 1 < in.size() && in[i + 1] == '*') { t.push_back(2); i += 2; } else if (c == '%') { while (i < in.size() && in[i] == '%') ++i; t.push_back(3); } else lexok = false; }
            static const int prec[4] = {0, 1, 2, 3}; static const bool rtol[4] = {false, false, true, false}; static const char* sym[4] = {"", "-", "^", "%"};
            size_t pos = 0; bool ok = lexok;
            std::function<S(int, bool)> parse = [&](int min, bool strict) -> S {
                if (!(pos < t.size() && t[pos] == 0)) { ok = false; return ""; }
                ++pos; S lhs = "2";
                while (ok && pos < t.size()) {
                    int op = t[pos]; if (op == 0) { ok = false; break; }
                    if (strict ? prec[op] <= min : prec[op] < min) break;
                    ++pos; S rhs = parse(prec[op], !rtol[op]);    // right associative: the right operand also takes operators of the same level
                    lhs = "(" + lhs + sym[op] + rhs + ")";
                }
                return lhs;
            };
            S want = ok ? parse(-1, false) : S(); bool wok = ok && pos == t.size();
            std::ostringstream es; auto got = p.parse(string_buffer(S(in)), es);
            if (got.has_value() != wok || (wok && *got != want)) { ++g_fail; if (g_first.empty()) g_first = "precedence carried by typed / string / regex terms, input '" + in + "': grouped as " + (got ? *got : S("<rejected>")) + ", the declared precedences give " + (wok ? want : S("<rejected>")); }
            if (wok) ++g_accept;
        }
    }
    }   // !only_custom
    {   // nameless regex terms carrying precedence, and the same operator grammar with custom terms (use_lexer) carrying precedence and associativity -
        // including left associativity at precedence 0: "everything else is as for the generated lexer"
        static constexpr char minus_pat[] = "-"; static constexpr char mul_pat[] = "\\*";
        static constexpr regex_term<minus_pat> rx_minus(1, associativity::ltor); static constexpr regex_term<mul_pat> rx_mul(2, associativity::ltor);
        static constexpr regex_term<minus_pat> ra_minus(associativity::ltor); static constexpr regex_term<mul_pat> ra_mul(associativity::rtol);   // associativity only (precedence 0)
        static const parser pna(expr, terms('2', ra_minus, ra_mul), nterms(expr), rules(expr('2') >= leaf,
            expr(expr, ra_minus, expr) >= [](S&& a, auto&&, S&& b) { return "(" + a + "-" + b + ")"; }, expr(expr, ra_mul, expr) >= [](S&& a, auto&&, S&& b) { return "(" + a + "*" + b + ")"; }));
        static const parser pn(expr, terms('2', rx_minus, rx_mul), nterms(expr), rules(expr('2') >= leaf,
            expr(expr, rx_minus, expr) >= [](S&& a, auto&&, S&& b) { return "(" + a + "-" + b + ")"; }, expr(expr, rx_mul, expr) >= [](S&& a, auto&&, S&& b) { return "(" + a + "*" + b + ")"; }));
        static const custom_term c_two("2", [](auto) { return S("2"); });
        // variant A: '-' (0, ltor) '*' (0, rtol): only associativity, at precedence 0 ; variant B: '-' (1, ltor) '*' (2, rtol)
        static const custom_term a_minus("-", [](auto) { return S("-"); }, 0, associativity::ltor); static const custom_term a_mul("*", [](auto) { return S("*"); }, 0, associativity::rtol);
        static const custom_term b_minus("-", [](auto) { return S("-"); }, 1, associativity::ltor); static const custom_term b_mul("*", [](auto) { return S("*"); }, 2, associativity::rtol);
        auto bin = [](S&& a, S&& op, S&& b) { return "(" + a + op + b + ")"; };
        static const parser pa(expr, terms(c_two, a_minus, a_mul), nterms(expr), rules(expr(c_two), expr(expr, a_minus, expr) >= bin, expr(expr, a_mul, expr) >= bin), use_lexer<op_lexer>{});
        static const parser pb(expr, terms(c_two, b_minus, b_mul), nterms(expr), rules(expr(c_two), expr(expr, b_minus, expr) >= bin, expr(expr, b_mul, expr) >= bin), use_lexer<op_lexer>{});
        // their twins under the generated lexer
        static constexpr char_term ga_minus('-', 0, associativity::ltor); static constexpr char_term ga_mul('*', 0, associativity::rtol);
        static constexpr char_term gb_minus('-', 1, associativity::ltor); static constexpr char_term gb_mul('*', 2, associativity::rtol);
        auto gbin = [](S&& a, char op, S&& b) { return "(" + a + S(1, op) + b + ")"; };
        static const parser ga(expr, terms('2', ga_minus, ga_mul), nterms(expr), rules(expr('2') >= leaf, expr(expr, ga_minus, expr) >= gbin, expr(expr, ga_mul, expr) >= gbin));
        static const parser gb(expr, terms('2', gb_minus, gb_mul), nterms(expr), rules(expr('2') >= leaf, expr(expr, gb_minus, expr) >= gbin, expr(expr, gb_mul, expr) >= gbin));
        for (const S& in : inputs) {
            // reference by precedence climbing: levels / right-associativity per operator
            auto pratt = [&](int pm, bool rm, int px, bool rx, S& out) -> bool {
                std::vector<char> t; for (char c : in) if (c != ' ') t.push_back(c);
                size_t pos = 0; bool ok = true;
                std::function<S(int, bool)> parse = [&](int min, bool strict) -> S {
                    if (!(pos < t.size() && t[pos] == '2')) { ok = false; return ""; }
                    ++pos; S lhs = "2";
                    while (ok && pos < t.size()) { char c = t[pos]; if (c != '-' && c != '*') { ok = false; break; } int pr = c == '-' ? pm : px; bool r = c == '-' ? rm : rx;
                        if (strict ? pr <= min : pr < min) break; ++pos; S rhs = parse(pr, !r); lhs = "(" + lhs + S(1, c) + rhs + ")"; }
                    return lhs; };
                out = parse(-1, false); return ok && pos == t.size(); };
            struct V { const char* name; int pm; bool rm; int px; bool rx; std::optional<S> got; };
            std::ostringstream e1, e2, e3, e4, e5, e6;
            V vs[] = {{"nameless regex terms (ltor) / (rtol), associativity-only constructor", 0, false, 0, true, pna.parse(string_buffer(S(in)), e6)},{"nameless regex terms (1, ltor) / (2, ltor)", 1, false, 2, false, pn.parse(string_buffer(S(in)), e1)},
                      {"custom terms (0, ltor) / (0, rtol)", 0, false, 0, true, pa.parse(string_buffer(S(in)), e2)}, {"char terms (0, ltor) / (0, rtol)", 0, false, 0, true, ga.parse(string_buffer(S(in)), e3)},
                      {"custom terms (1, ltor) / (2, rtol)", 1, false, 2, true, pb.parse(string_buffer(S(in)), e4)}, {"char terms (1, ltor) / (2, rtol)", 1, false, 2, true, gb.parse(string_buffer(S(in)), e5)}};
            for (V& v : vs) {
                ++g_cases; ++g_checks; S want; bool wok = pratt(v.pm, v.rm, v.px, v.rx, want);
                if (v.got.has_value() != wok || (wok && *v.got != want)) { ++g_fail; if (g_first.empty()) g_first = S(v.name) + ", input '" + in + "': grouped as " + (v.got ? *v.got : S("<rejected>")) + ", the declared precedences give " + (wok ? want : S("<rejected>")); }
                if (wok) ++g_accept;
            }
        }
    }
    S esc; for (char c : g_first) { if (c == '"' || c == '\\') esc += '\\'; esc += c; }
    std::printf("{\"cases\": %ld, \"checks\": %ld, \"failures\": %ld, \"accepted\": %ld, \"first_failure\": \"%s\"}\n", g_cases, g_checks, g_fail, g_accept, esc.c_str());
    return g_fail ? 1 : 0;
}
