// C05 / C09 / C18 (compiled part): every constructor spelling of every term class. A precedence, an associativity and a display name given to a constructor - in
// whichever overload - must be the ones the term has (public accessors), the ones that decide the grouping of "2 op 2 op 2", and the name that appears in messages;
// what is NOT given must be the documented default (precedence 0, no associativity, id as name). Black box.
#include <ctpg/ctpg.hpp>
#include <cstdio>
#include <sstream>
#include <string>

using namespace ctpg;
using namespace ctpg::ftors;
using namespace ctpg::buffers;

static long g_cases = 0, g_checks = 0, g_fail = 0; static std::string g_first;
static void fail(const std::string& what) { ++g_fail; if (g_first.empty()) g_first = what; }
static const char* an(associativity a) { return a == associativity::ltor ? "ltor" : a == associativity::rtol ? "rtol" : "no_assoc"; }

using S = std::string;
constexpr nterm<S> expr("expr");
struct op_lexer { template<typename It, typename ES> constexpr recognized_term match(match_options, source_point, It s, It e, ES&) { if (s == e) return {}; char c = *s; return c == '2' ? recognized_term(0, 1) : c == '-' ? recognized_term(1, 1) : recognized_term{}; } };

// the accessors, then the behaviour: expr -> '2' | expr OP expr ; "2-2-2" groups left iff OP is left associative (rule precedence == term precedence)
template<class Term> static void check_term(const char* spelling, const Term& t, int want_prec, associativity want_assoc, const char* want_name) {
    ++g_cases; ++g_checks;
    if (t.get_precedence() != want_prec || t.get_associativity() != want_assoc) fail(std::string(spelling) + ": the term has precedence " + std::to_string(t.get_precedence()) + " / " + an(t.get_associativity()) + ", the constructor was given " + std::to_string(want_prec) + " / " + an(want_assoc));
    ++g_checks; if (std::string(t.get_name()) != want_name) fail(std::string(spelling) + ": display name '" + t.get_name() + "', expected '" + want_name + "'");
}
template<class Term> static void check_grouping(const char* spelling, const Term& op, associativity want_assoc, const char* want_name) {
    ++g_cases;
    parser p(expr, terms('2', op), nterms(expr), rules(expr('2') >= [](auto&&) { return S("2"); }, expr(expr, op, expr) >= [](S&& a, auto&&, S&& b) { return "(" + a + "-" + b + ")"; }));
    std::ostringstream es; auto r = p.parse(string_buffer("2-2-2"), es);
    S want = want_assoc == associativity::ltor ? "((2-2)-2)" : "(2-(2-2))";
    ++g_checks; if (!r || *r != want) fail(std::string(spelling) + ": '2-2-2' grouped as " + (r ? *r : S("<rejected>")) + ", a term that is " + an(want_assoc) + " gives " + want);
    std::ostringstream e2; auto r2 = p.parse(string_buffer("2--"), e2);
    ++g_checks; if (r2 || e2.str() != std::string("[1:3] PARSE: Syntax error: Unexpected '") + want_name + "'\n") fail(std::string(spelling) + ": message for '2--' is '" + e2.str() + "', the term's display name is '" + want_name + "'");
}
template<class Term> static void check_custom_grouping(const char* spelling, const Term& op, associativity want_assoc) {
    ++g_cases;
    static const custom_term two("2", [](auto) { return S("2"); });
    parser p(expr, terms(two, op), nterms(expr), rules(expr(two), expr(expr, op, expr) >= [](S&& a, auto&&, S&& b) { return "(" + a + "-" + b + ")"; }), use_lexer<op_lexer>{});
    auto r = p.parse(string_buffer("2-2-2"));
    S want = want_assoc == associativity::ltor ? "((2-2)-2)" : "(2-(2-2))";
    ++g_checks; if (!r || *r != want) fail(std::string(spelling) + ": '2-2-2' grouped as " + (r ? *r : S("<rejected>")) + ", a term that is " + an(want_assoc) + " gives " + want);
}

constexpr char minus_pat[] = "-";
#define BOTH(spelling, term, prec, assoc, name) do { auto t_ = term; check_term(spelling, t_, prec, assoc, name); check_grouping(spelling, t_, assoc, name); } while (0)

int main() {
    const auto L = associativity::ltor, R = associativity::rtol, N = associativity::no_assoc;
    BOTH("char_term('-')", char_term('-'), 0, N, "-");
    BOTH("char_term('-', 1)", char_term('-', 1), 1, N, "-");
    BOTH("char_term('-', 1, ltor)", char_term('-', 1, L), 1, L, "-");
    BOTH("char_term('-', 0, ltor)", char_term('-', 0, L), 0, L, "-");
    BOTH("char_term('-', -3, rtol)", char_term('-', -3, R), -3, R, "-");
    BOTH("string_term(\"-\")", string_term("-"), 0, N, "-");
    BOTH("string_term(\"-\", 1)", string_term("-", 1), 1, N, "-");
    BOTH("string_term(\"-\", 1, ltor)", string_term("-", 1, L), 1, L, "-");
    BOTH("string_term(\"-\", 0, rtol)", string_term("-", 0, R), 0, R, "-");
    BOTH("regex_term<p>(ltor)", regex_term<minus_pat>(L), 0, L, "r_-");
    BOTH("regex_term<p>(2)", regex_term<minus_pat>(2), 2, N, "r_-");
    BOTH("regex_term<p>(2, ltor)", regex_term<minus_pat>(2, L), 2, L, "r_-");
    BOTH("regex_term<p>(\"minus\")", regex_term<minus_pat>("minus"), 0, N, "minus");
    BOTH("regex_term<p>(\"minus\", 2)", regex_term<minus_pat>("minus", 2), 2, N, "minus");
    BOTH("regex_term<p>(\"minus\", 2, ltor)", regex_term<minus_pat>("minus", 2, L), 2, L, "minus");
    BOTH("regex_term<p>(\"minus\", 0, ltor)", regex_term<minus_pat>("minus", 0, L), 0, L, "minus");
    { auto f = [](auto sv) { return S(sv); };
      BOTH("typed_term(char_term('-', 1, ltor), f)", typed_term(char_term('-', 1, L), f), 1, L, "-");
      BOTH("typed_term(string_term(\"-\", 2), f)", typed_term(string_term("-", 2), f), 2, N, "-");
      BOTH("typed_term(regex_term<p>(\"minus\", 2, ltor), f)", typed_term(regex_term<minus_pat>("minus", 2, L), f), 2, L, "minus");
      BOTH("typed_term(regex_term<p>(ltor), f)", typed_term(regex_term<minus_pat>(L), f), 0, L, "r_-"); }
    { auto f = [](auto) { return S("-"); };
      auto c2 = custom_term("minus", f); check_term("custom_term(name, f)", c2, 0, N, "minus"); check_custom_grouping("custom_term(name, f)", c2, N);
      auto c3 = custom_term("minus", f, 1); check_term("custom_term(name, f, 1)", c3, 1, N, "minus"); check_custom_grouping("custom_term(name, f, 1)", c3, N);
      auto c4 = custom_term("minus", f, 1, L); check_term("custom_term(name, f, 1, ltor)", c4, 1, L, "minus"); check_custom_grouping("custom_term(name, f, 1, ltor)", c4, L);
      auto c5 = custom_term("minus", f, 0, L); check_term("custom_term(name, f, 0, ltor)", c5, 0, L, "minus"); check_custom_grouping("custom_term(name, f, 0, ltor)", c5, L);
      auto c6 = custom_term("minus", f, -1, R); check_term("custom_term(name, f, -1, rtol)", c6, -1, R, "minus"); check_custom_grouping("custom_term(name, f, -1, rtol)", c6, R); }
    std::string esc; for (char c : g_first) { if (c == '"' || c == '\\') esc += '\\'; if (c == '\n') { esc += ' '; continue; } esc += c; }
    std::printf("{\"cases\": %ld, \"checks\": %ld, \"failures\": %ld, \"first_failure\": \"%s\"}\n", g_cases, g_checks, g_fail, esc.c_str());
    return g_fail ? 1 : 0;
}
