// C02 (compiled part): what the injection frames cannot express - rules WITHOUT a functor (the left-side value is
// constructed from 0, 1, 2 and 3 right-side values of distinct types), typed terms, helper functors - on every input
// up to a bound. Oracle: an independent recursive-descent evaluator of the same language that produces the expected
// value and the expected construction order (one construction per tree node, children first, left to right). Black box.
#include <ctpg/ctpg.hpp>
#include <cstdio>
#include <cstdlib>
#include <sstream>
#include <functional>
#include <string>
#include <vector>
#include <algorithm>

using namespace ctpg;
using namespace ctpg::ftors;
using namespace ctpg::buffers;

static std::vector<std::string>* g_events = nullptr;
static void ev(const std::string& s) { if (g_events) g_events->push_back(s); }

struct Digit { int v; };
struct Num { int v = 0; std::string repr; Num() = default; explicit Num(int x) : v(x), repr(std::to_string(x)) {} };
struct Item {
    std::string repr;
    Item() = default;
    Item(Num&& n) : repr("I(" + n.repr + ")") { ev(repr); }                                                        // item(num)            - no functor, 1 child
    Item(Num&& a, term_value<char>&& op, Num&& b) : repr("I(" + a.repr + std::string(1, op.get_value()) + b.repr + ")") { ev(repr); }   // item(num '+' num) - no functor, 3 children, a term in the middle
};
struct List { std::vector<std::string> items; List() { ev("L()"); } };                                             // list()               - no functor, 0 children
struct Doc { std::string repr; Doc() = default; Doc(List&& l) { repr = "D["; for (auto& s : l.items) repr += s + ";"; repr += "]"; ev(repr); } };   // doc(list) - no functor
struct Pair { std::string repr; Pair() = default; Pair(Item&& a, Item&& b) : repr("P<" + a.repr + "," + b.repr + ">") { ev(repr); } };          // pair(item item) - no functor, 2 children

constexpr nterm<Doc> doc("doc"); constexpr nterm<List> list("list"); constexpr nterm<Item> item("item"); constexpr nterm<Num> num("num"); constexpr nterm<Pair> pair_("pair");
constexpr char digit_pattern[] = "[12]";
static Digit to_digit(std::string_view sv) { ev(std::string("T") + sv[0]); return Digit{sv[0] - '0'}; }

static auto make_p() {
    static const typed_term digit(regex_term<digit_pattern>("digit"), to_digit);
    return parser(doc, terms(digit, '+', ';', '(', ')', '<', '>'), nterms(doc, list, item, num, pair_), rules(
        doc(list),
        list(),
        list(list, item, ';') >= [](List&& l, Item&& i, skip) { l.items.push_back(i.repr); ev("L+" + i.repr); return std::move(l); },
        list(list, pair_, ';') >= [](List&& l, Pair&& p, skip) { l.items.push_back(p.repr); ev("L+" + p.repr); return std::move(l); },
        item(num),
        item(num, '+', num),
        item('(', item, ')') >= _e2,
        pair_('<', item, item, '>') >= [](skip, Item&& a, Item&& b, skip) { return Pair(std::move(a), std::move(b)); },
        num(digit) >= [](const term_value<Digit>& d) { Num n(d.get_value().v); ev("N" + n.repr); return n; }
    ));
}

// ---------------------------------------------------------------- independent evaluator (recursive descent)
struct RD {
    const std::string& s; size_t p = 0; std::vector<std::string> events; bool ok = true;
    explicit RD(const std::string& s) : s(s) {}
    void ws() { while (p < s.size() && s[p] == ' ') ++p; }
    bool peek(char c) { ws(); return p < s.size() && s[p] == c; }
    bool eat(char c) { if (peek(c)) { ++p; return true; } return false; }
    bool num(std::string& out) { ws(); if (p < s.size() && (s[p] == '1' || s[p] == '2')) { events.push_back(std::string("T") + s[p]); out = std::string(1, s[p]); events.push_back("N" + out); ++p; return true; } return false; }
    bool item(std::string& out) {
        if (eat('(')) { std::string in; if (!item(in) || !eat(')')) return false; out = in; return true; }
        std::string a; if (!num(a)) return false;
        if (eat('+')) { std::string b; if (!num(b)) return false; out = "I(" + a + "+" + b + ")"; events.push_back(out); return true; }
        out = "I(" + a + ")"; events.push_back(out); return true;
    }
    bool run(std::string& out) {
        events.push_back("L()"); std::string body;
        while (true) {
            ws(); if (p >= s.size()) break;
            std::string it;
            if (eat('<')) { std::string a, b; if (!item(a) || !item(b) || !eat('>')) return false; it = "P<" + a + "," + b + ">"; events.push_back(it); }
            else if (!item(it)) return false;
            if (!eat(';')) return false;
            events.push_back("L+" + it); body += it + ";";
        }
        out = "D[" + body + "]"; events.push_back(out); return true;
    }
};

// second grammar: functor result types that differ from the left side's value type but convert to it (int -> long next to an
// nterm<int>; term_value<char> -> char through _e1): the left side's type, not the functor's raw result type, decides what is stored
constexpr nterm<long> total("total"); constexpr nterm<int> unit("unit"); constexpr nterm<char> mark("mark");
static auto make_q() {
    return parser(total, terms('1', '2', '+', '!'), nterms(total, unit, mark), rules(
        unit('1') >= val(1), unit('2') >= val(2),
        mark('!') >= _e1,
        total(unit) >= _e1,
        total(total, '+', unit) >= [](long a, skip, int b) { return a + b; },
        total(total, mark) >= [](long a, char m) { return m == '!' ? a * 10 : -1; }));
}

// fourth grammar: rules without a functor whose left-side type also has an initializer_list constructor: the documented construction is
// L(r1, ..., rn) (direct initialisation), so vec(3, 7) is three sevens and a unit rule passes its value through
struct J { std::string repr; J() = default; J(int v) : repr(std::to_string(v)) {} J(std::initializer_list<J> l) { repr = "["; for (auto& x : l) repr += x.repr + ","; repr += "]"; } };
constexpr nterm<std::vector<int>> vec("vec"); constexpr nterm<int> cnt("cnt"); constexpr nterm<J> jtop("jtop"); constexpr nterm<J> jatom("jatom");
static auto make_v() { return parser(vec, terms('1', '2', '3'), nterms(vec, cnt), rules(vec(cnt, cnt), cnt('1') >= val(1), cnt('2') >= val(2), cnt('3') >= val(3))); }
static auto make_j() { return parser(jtop, terms('1', '2'), nterms(jtop, jatom), rules(jtop(jatom), jatom('1') >= [](skip) { return J(1); }, jatom('2', jatom) >= [](skip, J&& j) { return J(std::move(j)); })); }

// fifth grammar: functors whose result is an lvalue reference to an object that outlives the reduction (a symbol table in the context, a static table):
// the left-side value is constructed FROM that object (a copy); the object itself must be left alone, so a second parse sees the same table
struct Env { std::vector<int> a{1, 2, 3}, b{4}; };
static std::vector<int> g_static_tab{7, 7};
constexpr nterm<std::vector<int>> vexpr("vexpr");
static std::vector<int>& lookup(Env& e, char c) { return c == 'a' ? e.a : e.b; }
static auto make_e() { return parser(vexpr, terms('a', 'b', 's', '+'), nterms(vexpr), rules(
    vexpr('a') >>= [](Env& e, char c) -> std::vector<int>& { return lookup(e, c); },
    vexpr('b') >>= [](Env& e, char c) -> std::vector<int>& { return lookup(e, c); },
    vexpr('s') >= [](skip) -> std::vector<int>& { return g_static_tab; },
    vexpr(vexpr, '+', vexpr) >= [](std::vector<int>&& x, skip, std::vector<int>&& y) { x.insert(x.end(), y.begin(), y.end()); return std::move(x); })); }

// sixth grammar: value types that look like the parser's own result machinery - a root of type bool (a successful parse of "0" is an engaged optional holding
// false), a root of type std::optional<int> (an engaged optional holding a disengaged one), and a std::string_view nonterminal built without a functor from
// a regex term (the very slice of the caller's buffer)
constexpr nterm<bool> broot("broot"); constexpr nterm<std::optional<int>> oroot("oroot"); constexpr nterm<std::string_view> svroot("svroot");
constexpr char sv_pat[] = "[xy]+"; constexpr regex_term<sv_pat> sv_word("word");
static auto make_b() { return parser(broot, terms('0', '1', '!'), nterms(broot), rules(broot('0') >= val(false), broot('1') >= val(true), broot('!', broot) >= [](skip, bool b) { return !b; })); }
static auto make_o() { return parser(oroot, terms('n', 'v', '+'), nterms(oroot), rules(oroot('n') >= [](skip) { return std::optional<int>(); }, oroot('v') >= [](skip) { return std::optional<int>(7); },
    oroot(oroot, '+', oroot) >= [](std::optional<int> a, skip, std::optional<int> b) { return a && b ? std::optional<int>(*a + *b) : std::optional<int>(); })); }
static auto make_sv() { return parser(svroot, terms(sv_word), nterms(svroot), rules(svroot(sv_word))); }

// seventh grammar: a term whose automaton passes an accepting state, reads on and then dies ("12." for [0-9]+(\.[0-9]+)?): the term's value is its functor
// applied to the longest accepted prefix, and the bytes read beyond it belong to the next term
constexpr char dec_pat[] = "[0-9]+(\\.[0-9]+)?"; constexpr regex_term<dec_pat> decimal("decimal");
constexpr nterm<std::string> sentence("sentence");
static auto make_d() { return parser(sentence, terms(decimal, '.'), nterms(sentence), rules(
    sentence(decimal) >= [](std::string_view d) { return "[" + std::string(d) + "]"; },
    sentence(sentence, '.') >= [](std::string&& s, skip) { return s + "."; },
    sentence(sentence, decimal) >= [](std::string&& s, std::string_view d) { return s + "[" + std::string(d) + "]"; })); }

// eighth grammar: a rule with 12 right-side symbols, ten of them of the same value type: every value arrives at its own position
constexpr nterm<int> dg("dg"); constexpr nterm<std::string> row12("row12");
static auto make_r() { return parser(row12, terms('1', '2', '3', ':', ';'), nterms(row12, dg), rules(
    dg('1') >= val(1), dg('2') >= val(2), dg('3') >= val(3),
    row12(dg, dg, dg, dg, dg, ':', dg, dg, dg, dg, dg, ';') >= [](int a, int b, int c, int d, int e, char colon, int f, int g, int h, int i, int j, char semi) {
        std::string o; for (int x : {a, b, c, d, e}) o += char('0' + x); o += colon; for (int x : {f, g, h, i, j}) o += char('0' + x); o += semi; return o; })); }

// ninth grammar: functor OBJECTS with state of their own (a counter behind a std::function, a struct with a mutable member): the functor called for a node is the one
// the rule was given - within one parse successive reductions by the same rule see the state left by the previous one (serial numbers 0, 1, 2 ...)
struct Serial { mutable int next = 0; std::string operator()(skip) const { return std::to_string(next++); } };
constexpr nterm<std::string> ser("ser"); constexpr nterm<std::string> sers("sers");
static auto make_s() { return parser(sers, terms('x', 'y'), nterms(sers, ser), rules(
    ser('x') >= Serial{},
    ser('y') >= std::function<std::string(skip)>([k = 10](skip) mutable { return std::to_string(k++); }),
    sers(ser) >= [](std::string&& a) { return std::move(a); },
    sers(sers, ser) >= [](std::string&& a, std::string&& b) { return a + " " + b; })); }

int main(int argc, char** argv) {
    int n = argc > 1 ? std::atoi(argv[1]) : 5;
    static const auto p = make_p();
    std::vector<std::string> inputs{""}; const char al[] = {'1', '2', '+', ';', '(', ')', '<', '>', ' '};
    for (size_t lo = 0, l = 0; l < (size_t)n; ++l) { size_t hi = inputs.size(); for (size_t i = lo; i < hi; ++i) for (char c : al) inputs.push_back(inputs[i] + c); lo = hi; }
    // a few longer, nested inputs on top of the exhaustive bound
    for (const char* x : {"1+2;(1);<1 2+1>;", "((2));<(1)(2)>;1;", "<1+1 (2+2)>;", "1;2;1+1;2+2;(1+2);"}) inputs.push_back(x);
    long cases = 0, checks = 0, fails = 0, accepted = 0; std::string first;
    for (const std::string& in : inputs) {
        ++cases;
        RD rd(in); std::string want; bool wok = rd.run(want) && (rd.ws(), rd.p == in.size());
        std::vector<std::string> events; g_events = &events;
        std::ostringstream es; auto r = p.parse(string_buffer(std::string(in)), es);
        g_events = nullptr;
        ++checks;
        auto fail = [&](const std::string& w) { ++fails; if (first.empty()) first = "input '" + in + "': " + w; };
        if (r.has_value() != wok) { fail(std::string("parse ") + (r ? "accepted" : "rejected") + ", the evaluator " + (wok ? "accepts" : "rejects")); continue; }
        if (!wok) continue;
        ++accepted; ++checks;
        if (r->repr != want) { fail("value " + r->repr + " expected " + want); continue; }
        ++checks;
        if (events != rd.events) { std::string a, b; for (auto& e : events) a += e + " "; for (auto& e : rd.events) b += e + " "; fail("construction order [" + a + "] expected [" + b + "]"); }
    }
    {   // grammar 2 on every input up to the same bound
        static const auto q = make_q();
        std::vector<std::string> in2{""}; const char al2[] = {'1', '2', '+', '!', ' '};
        for (size_t lo = 0, l = 0; l < (size_t)n + 1; ++l) { size_t hi = in2.size(); for (size_t i = lo; i < hi; ++i) for (char c : al2) in2.push_back(in2[i] + c); lo = hi; }
        for (const std::string& in : in2) {
            ++cases; ++checks;
            // independent evaluation: unit (('+' unit) | '!')*
            std::string t; for (char c : in) if (c != ' ') t += c;
            bool wok = !t.empty() && (t[0] == '1' || t[0] == '2'); long want = wok ? t[0] - '0' : 0; size_t k = 1;
            while (wok && k < t.size()) { if (t[k] == '!') { want *= 10; ++k; } else if (t[k] == '+' && k + 1 < t.size() && (t[k + 1] == '1' || t[k + 1] == '2')) { want += t[k + 1] - '0'; k += 2; } else wok = false; }
            std::optional<long> r; std::string thrown; std::ostringstream es;
            try { r = q.parse(string_buffer(std::string(in)), es); } catch (const std::exception& e) { thrown = e.what(); }
            if (!thrown.empty()) { ++fails; if (first.empty()) first = "grammar 2 input '" + in + "': parse threw " + thrown; continue; }
            if (r.has_value() != wok || (wok && *r != want)) { ++fails; if (first.empty()) first = "grammar 2 input '" + in + "': got " + (r ? std::to_string(*r) : std::string("empty")) + " expected " + (wok ? std::to_string(want) : std::string("empty")); }
            if (wok) ++accepted;
        }
    }
    {   // grammar 3, one-dimensional sweep (not exhaustive): deep right recursion, so that many values are pending when the reductions
        // start - around the stacks' reserved size (1024), its doublings, and the 16-bit limit
        static constexpr nterm<std::string> rr("rr");
        static const auto d = parser(rr, terms('a', 'b'), nterms(rr), rules(
            rr('a') >= [](char c) { return std::string(1, c); }, rr('b') >= [](char c) { return std::string(1, c); },
            rr('a', rr) >= [](char c, std::string&& rest) { rest.push_back(c); return std::move(rest); },
            rr('b', rr) >= [](char c, std::string&& rest) { rest.push_back(c); return std::move(rest); }));
        for (size_t len : {1u, 2u, 7u, 1023u, 1024u, 1025u, 2048u, 4097u, 65535u, 65536u, 65537u, 65538u, 70001u}) {
            std::string in; for (size_t i = 0; i < len; ++i) in += ((i * 7 + i / 3) % 5 < 2) ? 'b' : 'a';
            std::string want(in.rbegin(), in.rend());
            ++cases; ++checks;
            std::optional<std::string> r; std::string thrown;
            try { r = d.parse(string_buffer(std::string(in))); } catch (const std::exception& e) { thrown = e.what(); }
            if (!thrown.empty()) { ++fails; if (first.empty()) first = "deep right recursion, " + std::to_string(len) + " tokens: parse threw " + thrown; }
            else if (!r || *r != want) { ++fails; if (first.empty()) first = "deep right recursion, " + std::to_string(len) + " tokens: the functors did not receive their own children's values (result differs from the reversed input" + (r ? " at position " + std::to_string(std::mismatch(r->begin(), r->end(), want.begin(), want.end()).first - r->begin()) : std::string(", empty")) + ")"; }
            else ++accepted;
        }
    }
    {   // grammar 3b, the same sweep with an empty rule at the bottom of the recursion: the empty rule's value is the one created when the value
        // stack is exactly as deep as the input is long (at 1024, 2048, ... its creation is what makes the stack reallocate)
        static constexpr nterm<std::string> re("re");
        static const auto e = parser(re, terms('a', 'b'), nterms(re), rules(
            re() >= []() { return std::string("$"); },
            re('a', re) >= [](char c, std::string&& rest) { rest.push_back(c); return std::move(rest); },
            re('b', re) >= [](char c, std::string&& rest) { rest.push_back(c); return std::move(rest); }));
        for (size_t len : {0u, 1u, 2u, 7u, 1022u, 1023u, 1024u, 1025u, 2047u, 2048u, 2049u, 4096u, 4097u, 65535u, 65536u, 65537u, 70001u}) {
            std::string in; for (size_t i = 0; i < len; ++i) in += ((i * 7 + i / 3) % 5 < 2) ? 'b' : 'a';
            std::string want = "$" + std::string(in.rbegin(), in.rend());
            ++cases; ++checks;
            std::optional<std::string> r; std::string thrown;
            try { r = e.parse(string_buffer(std::string(in))); } catch (const std::exception& ex) { thrown = ex.what(); }
            if (!thrown.empty()) { ++fails; if (first.empty()) first = "deep right recursion ending in an empty rule, " + std::to_string(len) + " tokens: parse threw " + thrown; }
            else if (!r || *r != want) { ++fails; if (first.empty()) first = "deep right recursion ending in an empty rule, " + std::to_string(len) + " tokens: the functors did not receive their own children's values (result differs from '$' + the reversed input)"; }
            else ++accepted;
        }
    }
    {   // grammar 9: every input up to length 6 over {x, y}, each on a freshly built parser
        std::vector<std::string> in9{""}; for (size_t lo = 0, l = 0; l < 6; ++l) { size_t hi = in9.size(); for (size_t i = lo; i < hi; ++i) for (char c : {'x', 'y'}) in9.push_back(in9[i] + c); lo = hi; }
        for (const std::string& in : in9) {
            if (in.empty()) continue;
            ++cases; ++checks;
            const auto sp = make_s();
            std::string want; int nx = 0, ny = 10; for (char c : in) { if (!want.empty()) want += " "; want += std::to_string(c == 'x' ? nx++ : ny++); }
            auto r = sp.parse(string_buffer(std::string(in)));
            if (!r || *r != want) { ++fails; if (first.empty()) first = "grammar 9 (functor objects with their own state) input '" + in + "': got '" + (r ? *r : std::string("empty")) + "' expected '" + want + "'"; } else ++accepted;
        }
    }
    {   // grammar 8: all 3^10 digit assignments of the one 12-token sentence shape, plus malformed variants
        static const auto r = make_r();
        for (int code = 0; code < 59049; ++code) {
            std::string in; int c = code; for (int k = 0; k < 10; ++k) { in += char('1' + c % 3); c /= 3; if (k == 4) in += ':'; } in += ';';
            ++cases; ++checks; auto got = r.parse(string_buffer(std::string(in)));
            if (!got || *got != in) { ++fails; if (first.empty()) first = "grammar 8 (12-symbol rule) input '" + in + "': got " + (got ? *got : std::string("empty")) + ", every value must arrive at its own position"; }
            else ++accepted;
            if (code % 997 == 0) { for (std::string bad : {in.substr(1), in + "1", in.substr(0, 5) + in.substr(6), in.substr(0, 11)}) { ++cases; ++checks; if (r.parse(string_buffer(std::string(bad)))) { ++fails; if (first.empty()) first = "grammar 8: malformed input '" + bad + "' accepted"; } } }
        }
    }
    {   // grammar 7 on every input up to length 6
        static const auto d = make_d();
        std::vector<std::string> in7{""}; for (size_t lo = 0, l = 0; l < 6; ++l) { size_t hi = in7.size(); for (size_t i = lo; i < hi; ++i) for (char c : {'1', '2', '.', ' '}) in7.push_back(in7[i] + c); lo = hi; }
        for (const std::string& in : in7) {
            ++cases; ++checks;
            // reference: longest-match tokens, then sentence -> decimal (decimal | '.')*
            std::string want; bool wok = true; size_t i = 0; int ntok = 0;
            while (wok) {
                while (i < in.size() && in[i] == ' ') ++i;
                if (i >= in.size()) break;
                if (in[i] == '.') { if (ntok == 0) { wok = false; break; } want += "."; ++i; ++ntok; continue; }
                size_t e = i; while (e < in.size() && (in[e] == '1' || in[e] == '2')) ++e;
                if (e == i) { wok = false; break; }
                if (e + 1 < in.size() && in[e] == '.' && (in[e + 1] == '1' || in[e + 1] == '2')) { size_t f = e + 1; while (f < in.size() && (in[f] == '1' || in[f] == '2')) ++f; e = f; }
                want += "[" + in.substr(i, e - i) + "]"; i = e; ++ntok;
            }
            if (ntok == 0) wok = false;
            auto r = d.parse(string_buffer(std::string(in)));
            if (r.has_value() != wok || (wok && *r != want)) { ++fails; if (first.empty()) first = "grammar 7 (term whose automaton reads past its last accepting state) input '" + in + "': got " + (r ? *r : std::string("empty")) + " expected " + (wok ? want : std::string("empty")); }
            if (wok) ++accepted;
        }
    }
    {   // grammar 6 on every input up to length 4
        static const auto b = make_b(); static const auto o = make_o(); static const auto sv = make_sv();
        std::vector<std::string> in6{""}; for (size_t lo = 0, l = 0; l < 4; ++l) { size_t hi = in6.size(); for (size_t i = lo; i < hi; ++i) for (char c : {'0', '1', '!', 'n', 'v', '+', 'x', 'y', ' '}) in6.push_back(in6[i] + c); lo = hi; }
        for (const std::string& in : in6) {
            std::string t; for (char c : in) if (c != ' ') t += c;
            {   ++cases; ++checks;   // bool root: !*[01]
                size_t k = 0; while (k < t.size() && t[k] == '!') ++k; bool wok = k + 1 == t.size() && (t[k] == '0' || t[k] == '1'); bool want = wok && ((t[k] == '1') != (k % 2 == 1));
                auto r = b.parse(string_buffer(std::string(in)));
                if (r.has_value() != wok || (wok && *r != want)) { ++fails; if (first.empty()) first = "grammar 6 (bool root) input '" + in + "': " + (r ? (*r ? "true" : "false") : "no value") + ", expected " + (wok ? (want ? "true" : "false") : "no value"); }
                if (wok) ++accepted; }
            {   ++cases; ++checks;   // optional<int> root: [nv](+[nv])*
                bool wok = t.size() % 2 == 1; bool all = true; int sum = 0; for (size_t i = 0; i < t.size() && wok; ++i) { if (i % 2) { if (t[i] != '+') wok = false; } else if (t[i] == 'v') sum += 7; else if (t[i] == 'n') all = false; else wok = false; }
                auto r = o.parse(string_buffer(std::string(in)));
                bool ok = r.has_value() == wok && (!wok || (r->has_value() == all && (!all || **r == sum)));
                if (!ok) { ++fails; if (first.empty()) first = "grammar 6 (std::optional<int> root) input '" + in + "': " + (r ? (*r ? "value " + std::to_string(**r) : std::string("engaged result holding an empty optional")) : std::string("no value")) + ", expected " + (wok ? (all ? "value " + std::to_string(sum) : std::string("engaged result holding an empty optional")) : std::string("no value")); }
                if (wok) ++accepted; }
            {   ++cases; ++checks;   // string_view root without functor: the slice itself
                size_t a = in.find_first_not_of(' '); size_t e = in.find_last_not_of(' '); bool wok = a != std::string::npos && in.substr(a, e - a + 1).find_first_not_of("xy") == std::string::npos;
                std::string held(in); auto r = sv.parse(string_view_buffer(std::string_view(held)));
                bool ok = r.has_value() == wok && (!wok || (r->data() == held.data() + a && r->size() == e - a + 1));
                if (!ok) { ++fails; if (first.empty()) first = "grammar 6 (std::string_view root built from a regex term without functor) input '" + in + "': the result is not the slice of the caller's buffer"; }
                if (wok) ++accepted; }
        }
    }
    {   // grammar 5 on every input up to length 5, each parsed twice with the same context
        static const auto e = make_e();
        std::vector<std::string> in5{""}; for (size_t lo = 0, l = 0; l < 5; ++l) { size_t hi = in5.size(); for (size_t i = lo; i < hi; ++i) for (char c : {'a', 'b', 's', '+'}) in5.push_back(in5[i] + c); lo = hi; }
        for (const std::string& in : in5) {
            ++cases; ++checks;
            bool wok = in.size() % 2 == 1; std::vector<int> want;
            for (size_t i = 0; i < in.size() && wok; ++i) { if (i % 2 == 1) { if (in[i] != '+') wok = false; continue; } if (in[i] == 'a') want.insert(want.end(), {1, 2, 3}); else if (in[i] == 'b') want.push_back(4); else if (in[i] == 's') want.insert(want.end(), {7, 7}); else wok = false; }
            Env env; g_static_tab = {7, 7};
            auto r1 = e.context_parse(env, string_buffer(std::string(in)));
            auto r2 = e.context_parse(env, string_buffer(std::string(in)));
            auto show = [](const std::optional<std::vector<int>>& r) { if (!r) return std::string("empty"); std::string o = "{"; for (int x : *r) o += std::to_string(x) + ","; return o + "}"; };
            std::string problem;
            if (r1.has_value() != wok || (wok && *r1 != want)) problem = "first parse gives " + show(r1) + ", the derivation evaluates to " + (wok ? show(want) : std::string("empty"));
            else if (r2 != r1) problem = "the second parse of the same input with the same context gives " + show(r2) + ", the first gave " + show(r1);
            else if (env.a != std::vector<int>{1, 2, 3} || env.b != std::vector<int>{4} || g_static_tab != std::vector<int>{7, 7}) problem = "an object a functor returned by reference (symbol table entry) was modified by the library";
            if (!problem.empty()) { ++fails; if (first.empty()) first = "grammar 5 (functors returning lvalue references) input '" + in + "': " + problem; }
            if (wok) ++accepted;
        }
    }
    {   // grammar 4 on every input up to length 3
        static const auto v = make_v(); static const auto j = make_j();
        std::vector<std::string> in4{""}; for (size_t lo = 0, l = 0; l < 3; ++l) { size_t hi = in4.size(); for (size_t i = lo; i < hi; ++i) for (char c : {'1', '2', '3'}) in4.push_back(in4[i] + c); lo = hi; }
        for (const std::string& in : in4) {
            ++cases; ++checks;
            bool wok = in.size() == 2; std::vector<int> want; if (wok) want.assign(size_t(in[0] - '0'), in[1] - '0');
            auto r = v.parse(string_buffer(std::string(in)));
            if (r.has_value() != wok || (wok && *r != want)) { ++fails; if (first.empty()) { std::string got = "empty"; if (r) { got = "{"; for (int x : *r) got += std::to_string(x) + ","; got += "}"; } first = "grammar 4 (vec(cnt, cnt) without functor) input '" + in + "': got " + got + ", the documented construction std::vector<int>(" + (wok ? std::string(1, in[0]) + ", " + in[1] : std::string("-")) + ") gives " + std::to_string(want.size()) + " elements"; } }
            if (wok) ++accepted;
            ++cases; ++checks;
            bool jok = !in.empty() && in.back() == '1' && in.find_first_not_of('2') == in.size() - 1;
            auto rj = j.parse(string_buffer(std::string(in)));
            if (rj.has_value() != jok || (jok && rj->repr != "1")) { ++fails; if (first.empty()) first = "grammar 4 (unit rule jtop(jatom) without functor) input '" + in + "': got " + (rj ? rj->repr : std::string("empty")) + " expected " + (jok ? "1 (the value passed through)" : "empty"); }
            if (jok) ++accepted;
        }
    }
    std::string esc; for (char c : first) { if (c == '"' || c == '\\') esc += '\\'; esc += c; }
    std::printf("{\"cases\": %ld, \"checks\": %ld, \"failures\": %ld, \"accepted\": %ld, \"first_failure\": \"%s\"}\n", cases, checks, fails, accepted, esc.c_str());
    return fails ? 1 : 0;
}
