// C19 (compiled part 2): the helper functors inside real grammars, as the README uses them - their arguments are then term values and
// nonterminal values handed over by the parser (conversions from term_value<T>, rvalue-ness), not plain objects. Every input up to a bound
// against a hand-written evaluator. Black box.
#include <ctpg/ctpg.hpp>
#include <cstdio>
#include <cstdlib>
#include <functional>
#include <sstream>
#include <string>
#include <vector>

using namespace ctpg;
using namespace ctpg::ftors;
using namespace ctpg::buffers;

static long g_cases = 0, g_checks = 0, g_fail = 0, g_accept = 0; static std::string g_first;
static void fail(const char* g, const std::string& in, const std::string& what) { ++g_fail; if (g_first.empty()) g_first = std::string(g) + ", input '" + in + "': " + what; }
static std::vector<std::string> all_inputs(const std::string& al, int n) { std::vector<std::string> v{""}; for (size_t lo = 0, l = 0; l < (size_t)n; ++l) { size_t hi = v.size(); for (size_t i = lo; i < hi; ++i) for (char c : al) v.push_back(v[i] + c); lo = hi; } return v; }

// README "val": binary -> '0' | '1' | binary '&' binary | binary '|' binary   (no precedences: conflicts are resolved towards shift, i.e. right grouping)
constexpr nterm<bool> binary("binary");
// README word list: create<list_type>{} and push_back{} / emplace_back{} with a regex term (the element is a term_value<std::string_view>)
constexpr char name_pat[] = "[a-z]+"; constexpr regex_term<name_pat> name("name");
using name_list = std::vector<std::string_view>; constexpr nterm<name_list> names("names"); constexpr nterm<name_list> names2("names2");
using string_list = std::vector<std::string>; constexpr nterm<string_list> names3("names3");
// README comma separated numbers: construct<list_type, 1>{} and push_back<1, 3>{} with a typed term (the element is a term_value<int>)
constexpr char num_pat[] = "[1-9][0-9]*";
static int to_int(std::string_view sv) { int v = 0; for (char c : sv) v = v * 10 + (c - '0'); return v; }
using int_list = std::vector<int>; constexpr nterm<int_list> numbers("numbers");
// README element placeholders: expr -> number | expr '+' expr | '(' expr ')' >= _e2
constexpr nterm<int> expr("expr");

int main(int argc, char** argv) {
    int n = argc > 1 ? std::atoi(argv[1]) : 5;
    {   static const parser p(binary, terms('0', '1', '&', '|'), nterms(binary), rules(
            binary('0') >= val(false), binary('1') >= val(true),
            binary(binary, '&', binary) >= [](bool a, auto, bool b) { return a & b; }, binary(binary, '|', binary) >= [](bool a, auto, bool b) { return a | b; }));
        for (const std::string& in : all_inputs("01&|", n)) {
            ++g_cases; ++g_checks;
            bool wok = in.size() % 2 == 1; for (size_t i = 0; i < in.size() && wok; ++i) wok = (i % 2 == 0) ? (in[i] == '0' || in[i] == '1') : (in[i] == '&' || in[i] == '|');
            bool want = false; if (wok) { want = in.back() == '1'; for (size_t i = in.size() - 1; i >= 2; i -= 2) { bool a = in[i - 2] == '1'; want = in[i - 1] == '&' ? (a & want) : (a | want); } }
            auto r = p.parse(string_buffer(std::string(in)));
            if (r.has_value() != wok || (wok && *r != want)) fail("val(false) / val(true)", in, std::string("got ") + (r ? (*r ? "true" : "false") : "no value") + ", expected " + (wok ? (want ? "true" : "false") : "no value"));
            if (wok) ++g_accept;
        } }
    {   static const parser p(names, terms(name), nterms(names), rules(names() >= create<name_list>{}, names(names, name) >= push_back{}));
        static const parser q(names2, terms(name), nterms(names2), rules(names2() >= create<name_list>{}, names2(names2, name) >= emplace_back{}));
        static const parser s(names3, terms(name), nterms(names3), rules(names3() >= create<string_list>{}, names3(names3, name) >= emplace_back<1, 2>{}));   // element needs a conversion: string_view -> std::string
        for (const std::string& in : all_inputs("ab x", n)) {
            ++g_cases; ++g_checks;
            std::vector<std::pair<size_t, size_t>> want; bool wok = true;
            for (size_t i = 0; i < in.size() && wok;) { if (in[i] == ' ') { ++i; continue; } if (in[i] != 'a' && in[i] != 'b' && in[i] != 'x') { wok = false; break; } size_t e = i; while (e < in.size() && in[e] != ' ') ++e; want.push_back({i, e - i}); i = e; }
            std::string held(in);
            auto r = p.parse(string_view_buffer(std::string_view(held))); auto r2 = q.parse(string_view_buffer(std::string_view(held))); auto r3 = s.parse(string_view_buffer(std::string_view(held)));
            auto same = [&](const std::optional<name_list>& got) { if (got.has_value() != wok) return false; if (!wok) return true; if (got->size() != want.size()) return false; for (size_t k = 0; k < want.size(); ++k) if ((*got)[k].data() != held.data() + want[k].first || (*got)[k].size() != want[k].second) return false; return true; };
            if (!same(r)) fail("create<list>{} + push_back{} with a regex term", in, "the list is not the sequence of lexeme slices");
            if (!same(r2)) fail("create<list>{} + emplace_back{} with a regex term", in, "the list is not the sequence of lexeme slices");
            bool ok3 = r3.has_value() == wok; if (ok3 && wok) { ok3 = r3->size() == want.size(); for (size_t k = 0; ok3 && k < want.size(); ++k) ok3 = (*r3)[k] == in.substr(want[k].first, want[k].second); }
            if (!ok3) fail("emplace_back<1,2>{} into std::vector<std::string> from a regex term", in, "the list is not the sequence of lexemes");
            if (wok) ++g_accept;
        } }
    {   static const typed_term number(regex_term<num_pat>("number"), to_int);
        static const parser p(numbers, terms(number, ','), nterms(numbers), rules(numbers(number) >= construct<int_list, 1>{}, numbers(numbers, ',', number) >= push_back<1, 3>{}));
        static const parser e(expr, terms('+', '(', ')', number), nterms(expr), rules(expr(number) >= [](const auto& t) { return t.get_value(); }, expr(expr, '+', expr) >= [](int a, auto, int b) { return a + b; }, expr('(', expr, ')') >= _e2));
        for (const std::string& in : all_inputs("12,+() ", n)) {
            {   ++g_cases; ++g_checks;   // number (',' number)*
                int_list want; bool wok = true, need = true; size_t i = 0;
                while (wok) { while (i < in.size() && in[i] == ' ') ++i; if (i >= in.size()) break; if (need) { if (in[i] != '1' && in[i] != '2') { wok = false; break; } size_t f = i; while (f < in.size() && (in[f] == '1' || in[f] == '2')) ++f; want.push_back(to_int(in.substr(i, f - i))); i = f; need = false; } else { if (in[i] != ',') { wok = false; break; } ++i; need = true; } }
                if (need) wok = false;
                auto r = p.parse(string_buffer(std::string(in)));
                if (r.has_value() != wok || (wok && *r != want)) { std::string got = "no value"; if (r) { got = "{"; for (int x : *r) got += std::to_string(x) + ","; got += "}"; } fail("construct<list,1>{} + push_back<1,3>{} with a typed term", in, "got " + got + " (" + (wok ? std::to_string(want.size()) + " numbers expected" : "rejection expected") + ")"); }
                if (wok) ++g_accept; }
            {   ++g_cases; ++g_checks;   // sums with parentheses: value is the sum of all numbers when the input is well formed
                std::string t; for (char c : in) if (c != ' ') t += c;
                size_t pos = 0; bool ok = true; std::function<int()> ex, prim;
                // whitespace inside a number splits it into two tokens -> not well formed; tokenise on the original text
                std::vector<std::pair<char, int>> toks; for (size_t i = 0; i < in.size();) { char c = in[i]; if (c == ' ') { ++i; continue; } if (c == '1' || c == '2') { size_t f = i; while (f < in.size() && (in[f] == '1' || in[f] == '2')) ++f; toks.push_back({'n', to_int(in.substr(i, f - i))}); i = f; } else { toks.push_back({c, 0}); ++i; } }
                prim = [&]() -> int { if (pos < toks.size() && toks[pos].first == 'n') return toks[pos++].second; if (pos < toks.size() && toks[pos].first == '(') { ++pos; int v = ex(); if (pos < toks.size() && toks[pos].first == ')') { ++pos; return v; } ok = false; return 0; } ok = false; return 0; };
                ex = [&]() -> int { int v = prim(); while (ok && pos < toks.size() && toks[pos].first == '+') { ++pos; v += prim(); } return v; };
                int want = ex(); bool wok = ok && pos == toks.size() && !toks.empty();
                auto r = e.parse(string_buffer(std::string(in)));
                if (r.has_value() != wok || (wok && *r != want)) fail("_e2 for the parenthesised expression", in, "got " + (r ? std::to_string(*r) : std::string("no value")) + ", expected " + (wok ? std::to_string(want) : std::string("no value")));
                if (wok) ++g_accept; }
        } }
    std::string esc; for (char c : g_first) { if (c == '"' || c == '\\') esc += '\\'; esc += c; }
    std::printf("{\"cases\": %ld, \"checks\": %ld, \"failures\": %ld, \"accepted\": %ld, \"first_failure\": \"%s\"}\n", g_cases, g_checks, g_fail, g_accept, esc.c_str());
    return g_fail ? 1 : 0;
}
