// C14: semantic values are moved, never duplicated, leaked or reused (black box, compiled DSL, instrumented value type).
// Every input up to a bound over the grammar's terminals plus a foreign byte; success, failure and recovery paths.
#include <ctpg/ctpg.hpp>
#include <cstdio>
#include <cstdlib>
#include <map>
#include <sstream>
#include <string>
#include <vector>

using namespace ctpg;
using namespace ctpg::buffers;

struct Registry {
    int next = 0; std::vector<int> destroyed, consumed; long copies = 0, moves = 0, moved_from_seen = 0, live = 0;
    void reset() { next = 0; destroyed.clear(); consumed.clear(); copies = moves = moved_from_seen = 0; live = 0; }
    int fresh() { destroyed.push_back(0); consumed.push_back(0); ++live; return next++; }
};
static Registry R;

// exception injection: the g_throw_at-th functor call of a parse throws; every value built so far must still be destroyed exactly once
struct Boom {}; static long g_fcalls = 0, g_throw_at = -1;
static void maybe_throw() { if (++g_fcalls == g_throw_at) throw Boom{}; }
#ifdef MOVE_ONLY
#define COPY_CTOR(V) V(const V&) = delete;
#else
#define COPY_CTOR(V) V(const V& o) : id(o.id < 0 ? -1 : R.fresh()) { ++R.copies; }
#endif
struct V {
    int id;                       // -1: moved-from shell
    struct make_t {}; explicit V(make_t) : id(R.fresh()) {}
    COPY_CTOR(V)
#ifdef MOVE_NOT_NOEXCEPT
    V(V&& o) : id(o.id) { o.id = -1; ++R.moves; }            // copyable and movable, but the move may throw: nothing may fall back to copying
#else
    V(V&& o) noexcept : id(o.id) { o.id = -1; ++R.moves; }
#endif
    V& operator=(V&& o) noexcept { if (this != &o) { drop(); id = o.id; o.id = -1; } return *this; }
    ~V() { drop(); }
    void drop() { if (id >= 0) { R.destroyed[id]++; --R.live; id = -1; } }
    static V make() { maybe_throw(); return V(make_t{}); }
};
static void take(V&& v) { if (v.id < 0) { ++R.moved_from_seen; return; } R.consumed[v.id]++; V local(std::move(v)); }
static void look(const V& v) { if (v.id < 0) { ++R.moved_from_seen; return; } R.consumed[v.id]++; }

constexpr nterm<V> list("list"); constexpr nterm<V> item("item"); constexpr nterm<V> tail("tail"); constexpr nterm<V> atom("atom"); constexpr nterm<V> doc("doc");
constexpr char num_pattern[] = "n+";
static V from_lexeme(std::string_view) { return V::make(); }
constexpr char_term o_plus('+', 1, associativity::ltor);

// -DCONTEXTUAL: the same grammar with every functor attached with '>>=' and parsed through context_parse: values must reach contextual functors
// exactly like non-contextual ones (movable, never copied)
#ifdef CONTEXTUAL
#define OP >>=
#define CTXP int&,
#define CTXP0 int&
#else
#define OP >=
#define CTXP
#define CTXP0
#endif
static auto make_p() {
    static const typed_term num(regex_term<num_pattern>("num"), from_lexeme);
    return parser(doc, terms(num, o_plus, ';', '(', ')', '!'), nterms(doc, list, item, tail, atom), rules(
        doc(list),                                       // no functor: the value must be moved through, not copied
        item(atom),                                      // no functor
        atom(num) OP [](CTXP term_value<V>&& t) { look(t.get_value()); return V::make(); },
        list() OP [](CTXP0) { return V::make(); },
        list(list, item, tail, ';') OP [](CTXP V&& l, V&& i, V&& t, skip) { take(std::move(l)); take(std::move(i)); take(std::move(t)); return V::make(); },
        list(list, error, ';') OP [](CTXP V&& l, skip, skip) { take(std::move(l)); return V::make(); },
        item(item, '+', item) OP [](CTXP V a, skip, V&& b) { take(std::move(a)); take(std::move(b)); return V::make(); },
        item('(', item, ')') OP [](CTXP skip, V&& a, skip) { take(std::move(a)); return V::make(); },
        tail() OP [](CTXP0) { return V::make(); },
        tail('!') OP [](CTXP skip) { return V::make(); }
    ));
}

static long g_cases = 0, g_checks = 0, g_fail = 0, g_ok = 0, g_rej = 0, g_recovered = 0, g_values = 0; static std::string g_first;
static void fail(const std::string& in, const std::string& what) { ++g_fail; if (g_first.empty()) g_first = "input '" + in + "': " + what; }

// the fixed-capacity stacks used for cstring_buffer<N> hold values too (only trivially destructible ones qualify): a handle type without a
// destructor but with counting copy / move constructors, and a move-only one (compile probe), parsed through cstring_buffer
struct Handle {
    int v = 0;
    static long copies, moves;
    constexpr Handle() = default; constexpr explicit Handle(int x) : v(x) {}
    Handle(const Handle& o) : v(o.v) { ++copies; } Handle& operator=(const Handle& o) { v = o.v; ++copies; return *this; }
    Handle(Handle&& o) noexcept : v(o.v) { o.v = -1; ++moves; } Handle& operator=(Handle&& o) noexcept { v = o.v; o.v = -1; ++moves; return *this; }
};
long Handle::copies = 0; long Handle::moves = 0;
struct MoveOnlyHandle { int v = 0; MoveOnlyHandle() = default; explicit MoveOnlyHandle(int x) : v(x) {} MoveOnlyHandle(MoveOnlyHandle&&) = default; MoveOnlyHandle& operator=(MoveOnlyHandle&&) = default; MoveOnlyHandle(const MoveOnlyHandle&) = delete; MoveOnlyHandle& operator=(const MoveOnlyHandle&) = delete; };
static_assert(std::is_trivially_destructible_v<Handle> && std::is_trivially_destructible_v<MoveOnlyHandle>);
template<class H> static auto make_h() {
    static constexpr nterm<H> sum("sum");
    return parser(sum, terms('1', '2', '+'), nterms(sum), rules(
        sum('1') >= [](skip) { return H(1); }, sum('2') >= [](skip) { return H(2); },
        sum(sum, '+', sum) >= [](H&& a, skip, H&& b) { return H(a.v + b.v); }));
}
template<size_t N, class P> static int via_cstring(const P& p, const std::string& in) { char arr[N]; for (size_t i = 0; i + 1 < N; ++i) arr[i] = in[i]; arr[N - 1] = 0; auto r = p.parse(cstring_buffer<N>(arr)); return r ? r->v : -1; }
template<class P> static int via_cstring_any(const P& p, const std::string& in) { switch (in.size()) { case 0: return via_cstring<1>(p, in); case 1: return via_cstring<2>(p, in); case 2: return via_cstring<3>(p, in); case 3: return via_cstring<4>(p, in); case 4: return via_cstring<5>(p, in); case 5: return via_cstring<6>(p, in); case 6: return via_cstring<7>(p, in); default: return via_cstring<8>(p, in); } }
static void run_handles(long& cases, long& checks, long& fails, std::string& first) {
    static const auto ph = make_h<Handle>(); static const auto pm = make_h<MoveOnlyHandle>();
    std::vector<std::string> in{""}; for (size_t lo = 0, l = 0; l < 7; ++l) { size_t hi = in.size(); for (size_t i = lo; i < hi; ++i) for (char c : {'1', '2', '+'}) in.push_back(in[i] + c); lo = hi; }
    for (const std::string& s : in) {
        ++cases;
        int want = -1; if (s.size() % 2 == 1) { want = 0; for (size_t i = 0; i < s.size(); ++i) { if (i % 2 == 0) { if (s[i] == '+') { want = -1; break; } want += s[i] - '0'; } else if (s[i] != '+') { want = -1; break; } } }
        Handle::copies = 0; int got = via_cstring_any(ph, s); long c1 = Handle::copies;
        Handle::copies = 0; auto r = ph.parse(string_buffer(std::string(s))); long c2 = Handle::copies; int got2 = r ? r->v : -1;
        int got3 = via_cstring_any(pm, s);
        ++checks; if (got != want || got2 != want || got3 != want) { ++fails; if (first.empty()) first = "handle grammar, input '" + s + "': cstring_buffer gives " + std::to_string(got) + ", string_buffer " + std::to_string(got2) + ", move-only via cstring_buffer " + std::to_string(got3) + ", expected " + std::to_string(want); }
        ++checks; if (c1 != 0 || c2 != 0) { ++fails; if (first.empty()) first = "handle grammar, input '" + s + "': " + std::to_string(c1) + " copies of semantic values through cstring_buffer (fixed stacks), " + std::to_string(c2) + " through string_buffer; values must be moved"; }
    }
}

int main(int argc, char** argv) {
    int n = argc > 1 ? std::atoi(argv[1]) : 5;
    static const auto p = make_p();
    std::vector<std::string> inputs{""}; const char al[] = {'n', '+', ';', '(', ')', '!', 'x'};
    for (size_t lo = 0, l = 0; l < (size_t)n; ++l) { size_t hi = inputs.size(); for (size_t i = lo; i < hi; ++i) for (char c : al) inputs.push_back(inputs[i] + c); lo = hi; }
    // beyond the exhaustive bound: inputs long / deep enough for the value stack (a std::vector reserved for 1024 entries) to reallocate while values are pending
#ifndef MOVE_NOT_NOEXCEPT   // (std::vector itself copies such a type when it reallocates; the long inputs are left to the other builds)
    { std::string longlist; for (int i = 0; i < 700; ++i) longlist += (i % 3 == 0) ? "n+n;" : "(n);"; inputs.push_back(longlist);
      std::string deep(1500, '('); deep += "n"; deep += std::string(1500, ')'); deep += ";"; inputs.push_back(deep);
      std::string deeperr(1200, '('); deeperr += "n+;"; inputs.push_back(deeperr);            // failure with many values pending
      std::string rec; for (int i = 0; i < 400; ++i) rec += (i % 2 == 0) ? "n n;" : "n;"; inputs.push_back(rec); }   // hundreds of recoveries
#endif
    for (const std::string& in : inputs) {
        ++g_cases; R.reset();
        std::ostringstream es; bool ok;
#ifdef CONTEXTUAL
        int ctxv = 0;
        { auto r = p.context_parse(ctxv, string_buffer(in.c_str()), es); ok = r.has_value();
#else
        { auto r = p.parse(string_buffer(in.c_str()), es); ok = r.has_value();
#endif
          ++g_checks; if (ok && r->id < 0) fail(in, "returned value is a moved-from shell");
          ++g_checks; if (ok && R.live != 1) fail(in, std::to_string(R.live) + " values alive after a successful parse, expected only the result");
          ++g_checks; if (!ok && R.live != 0) fail(in, std::to_string(R.live) + " values leaked by a failed parse"); }
        (ok ? g_ok : g_rej)++; if (ok && !es.str().empty()) ++g_recovered;
        g_values += R.next;
        ++g_checks; if (R.live != 0) fail(in, "values still alive after the result was destroyed");
        ++g_checks; if (R.copies != 0) fail(in, std::to_string(R.copies) + " semantic values were copied");
        ++g_checks; if (R.moved_from_seen != 0) fail(in, "a functor received a moved-from value");
        for (int id = 0; id < R.next; ++id) {
            ++g_checks;
            if (R.destroyed[id] != 1) { fail(in, "value " + std::to_string(id) + " destroyed " + std::to_string(R.destroyed[id]) + " times"); break; }
            if (R.consumed[id] > 1) { fail(in, "value " + std::to_string(id) + " handed to " + std::to_string(R.consumed[id]) + " functor calls"); break; }
        }
    }
    // exception safety: for every input up to length 4 and every k, the k-th value creation throws out of parse()
    for (const std::string& in : inputs) {
        if (in.size() > 4) continue;
        for (long k = 1; k <= 12; ++k) {
            ++g_cases; R.reset(); g_fcalls = 0; g_throw_at = k; bool threw = false;
            try {
                std::ostringstream es;
#ifdef CONTEXTUAL
                int ctxv = 0; auto r = p.context_parse(ctxv, string_buffer(in.c_str()), es);
#else
                auto r = p.parse(string_buffer(in.c_str()), es);
#endif
                (void)r;
            } catch (const Boom&) { threw = true; }
            g_throw_at = -1;
            if (!threw) break;   // fewer than k values are created for this input
            ++g_checks; if (R.live != 0) fail(in, std::to_string(R.live) + " values alive after an exception thrown by the " + std::to_string(k) + "-th value creation left parse()");
            ++g_checks; if (R.copies != 0) fail(in, "values were copied on the exception path");
            for (int id = 0; id < R.next; ++id) { ++g_checks; if (R.destroyed[id] != 1) { fail(in, "value " + std::to_string(id) + " destroyed " + std::to_string(R.destroyed[id]) + " times after an exception (thrown by creation " + std::to_string(k) + ")"); break; } }
        }
    }
    run_handles(g_cases, g_checks, g_fail, g_first);
    std::string esc; for (char c : g_first) { if (c == '"' || c == '\\') esc += '\\'; esc += c; }
    std::printf("{\"cases\": %ld, \"checks\": %ld, \"failures\": %ld, \"accepted\": %ld, \"rejected\": %ld, \"accepted_after_recovery\": %ld, \"values_tracked\": %ld, \"first_failure\": \"%s\"}\n", g_cases, g_checks, g_fail, g_ok, g_rej, g_recovered, g_values, esc.c_str());
    return g_fail ? 1 : 0;
}
