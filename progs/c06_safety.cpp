// C06 (compiled grammars part): every byte string up to a bound over the grammar's bytes plus NUL, 0x80, 0xff, space and
// newline, through every buffer kind: a checked user buffer, string_view_buffer over an exact-size heap block,
// string_buffer, cstring_buffer<N>. Built with clang++ -fsanitize=address,undefined -fno-sanitize-recover=all; black box.
// Plus one-dimensional depth/length sweeps (not exhaustive, reported separately).
#include <ctpg/ctpg.hpp>
#include <cstdio>
#include <cstdlib>
#include <cstring>
#include <sstream>
#include <string>
#include <vector>
#include <unistd.h>

using namespace ctpg;
using namespace ctpg::ftors;
using namespace ctpg::buffers;

struct Fault { long deref_end = 0, deref_out = 0, formed_out = 0, steps = 0; } g_f;
struct Horizon {};
class checked_buffer {
public:
    checked_buffer(const char* b, size_t n) : b(b), n(long(n)) {}
    struct iterator {
        const char* b; long pos, n;
        char operator*() const { if (++g_f.steps > 100000) throw Horizon{}; if (pos == n) { g_f.deref_end++; return 0; } if (pos < 0 || pos > n) { g_f.deref_out++; return 0; } return b[pos]; }
        iterator& operator++() { adv(1); return *this; }
        iterator operator++(int) { iterator i(*this); adv(1); return i; }
        bool operator==(const iterator& o) const { return pos == o.pos; }
        bool operator!=(const iterator& o) const { return pos != o.pos; }
        iterator& operator+=(size_t k) { adv(long(k)); return *this; }
        iterator operator+(size_t k) const { iterator i(*this); i.adv(long(k)); return i; }
        long operator-(const iterator& o) const { return pos - o.pos; }
        void adv(long k) { pos += k; if (pos > n || pos < 0) g_f.formed_out++; }
    };
    iterator begin() const { return iterator{b, 0, n}; }
    iterator end() const { return iterator{b, n, n}; }
    std::string_view get_view(iterator s, iterator e) const { long a = std::min(std::max(s.pos, 0L), n), z = std::min(std::max(e.pos, a), n); return std::string_view(b + a, size_t(z - a)); }
private:
    const char* b; long n;
};

static long g_cases = 0, g_checks = 0, g_fail = 0, g_accept = 0, g_sweeps = 0; static std::string g_first;
static const char* volatile g_cur_g = ""; static std::string g_cur_in;
static std::string hex(const std::string& s) { std::string o; char b[4]; for (unsigned char c : s) { std::snprintf(b, sizeof b, "%02x", c); o += b; } return o; }
extern "C" void __asan_on_error() { std::fprintf(stderr, "CASE grammar=%s input(hex)=%s\n", g_cur_g, hex(g_cur_in).c_str()); }
static void fail(const std::string& in, const std::string& what) { ++g_fail; if (g_first.empty()) g_first = std::string("grammar ") + g_cur_g + " input(hex) " + hex(in) + ": " + what; }

// ---- grammars
constexpr nterm<int> expr("expr");
constexpr char_term o_plus('+', 1, associativity::ltor);
constexpr char_term o_mul('*', 2, associativity::ltor);
constexpr parser p_expr(expr, terms('1', o_plus, o_mul, '(', ')'), nterms(expr), rules(
    expr('1') >= val(1),
    expr(expr, '+', expr) >= [](int a, skip, int b){ return a + b; },
    expr(expr, '*', expr) >= [](int a, skip, int b){ return a * b; },
    expr('(', expr, ')') >= _e2));

constexpr nterm<int> root("root"); constexpr nterm<int> list("list");
constexpr parser p_rec(root, terms('x', ';', 'y'), nterms(root, list), rules(
    root(list, ';') >= _e1, root(error, ';') >= val(-1), list() >= val(0),
    list(list, 'x') >= [](int sum, skip){ return sum + 1; }));

constexpr nterm<int> rl("rl");   // right recursion ending in an empty rule: the empty rule's value is created when the value stack is as deep as the input is long
constexpr parser p_rl(rl, terms('x'), nterms(rl), rules(rl() >= val(0), rl('x', rl) >= [](skip, int n){ return n + 1; }));

constexpr int to_int(std::string_view sv) { int sum = 0; for (auto c : sv) { sum = (sum * 10 + (c - '0')) % 1000000; } return sum; }
constexpr char number_pattern[] = "[1-9][0-9]*"; constexpr regex_term<number_pattern> number("number");
constexpr char word_pattern[] = "[a-z\\x80-\\xff]+"; constexpr regex_term<word_pattern> word("word");
constexpr nterm<int> nlist("nlist");
constexpr parser p_num(nlist, terms(',', number, word), nterms(nlist), rules(
    nlist(number) >= to_int,
    nlist(word) >= [](const auto& w){ return int(w.get_value().size()); },
    nlist(nlist, ',', number) >= [](int sum, skip, const auto& n){ return (sum + to_int(n)) % 1000000; },
    nlist(nlist, ',', word) >= [](int sum, skip, const auto& w){ return sum + int(w.get_value().size()); }));

template<size_t N, class P> static std::optional<int> via_cstring(const P& p, const std::string& in) {
    char arr[N]; for (size_t i = 0; i + 1 < N; ++i) arr[i] = in[i]; arr[N - 1] = 0;
    return p.parse(cstring_buffer<N>(arr));
}
template<class P> static std::optional<int> via_cstring_dispatch(const P& p, const std::string& in, bool& supported) {
    supported = true;
    switch (in.size()) { case 0: return via_cstring<1>(p, in); case 1: return via_cstring<2>(p, in); case 2: return via_cstring<3>(p, in); case 3: return via_cstring<4>(p, in); case 4: return via_cstring<5>(p, in); case 5: return via_cstring<6>(p, in); default: supported = false; return std::nullopt; }
}
static std::string show(const std::optional<int>& o) { return o ? std::to_string(*o) : std::string("empty"); }

template<class P> static void run_grammar(const char* name, const P& p, const std::string& alphabet, int n) {
    g_cur_g = name;
    std::vector<std::string> inputs{""};
    for (size_t lo = 0, l = 0; l < (size_t)n; ++l) { size_t hi = inputs.size(); for (size_t i = lo; i < hi; ++i) for (char c : alphabet) inputs.push_back(inputs[i] + c); lo = hi; }
    for (const std::string& in : inputs) {
        g_cur_in = in; ++g_cases;
        for (int opt = 0; opt < 3; ++opt) {
            parse_options po = parse_options{}.set_skip_whitespace(opt != 2).set_skip_newline(opt != 1);
            g_f = Fault{}; std::optional<int> r1; bool horizon = false; std::ostringstream e1;
            try { r1 = p.parse(po, checked_buffer(in.data(), in.size()), e1); } catch (const Horizon&) { horizon = true; }
            ++g_checks; if (horizon) { fail(in, "no termination within the step horizon (user buffer)"); continue; }
            ++g_checks; if (g_f.deref_end || g_f.deref_out || g_f.formed_out) fail(in, "user buffer: " + std::to_string(g_f.deref_end) + " reads of end(), " + std::to_string(g_f.deref_out) + " reads outside, " + std::to_string(g_f.formed_out) + " iterators formed outside [begin,end]");
            char* block = static_cast<char*>(std::malloc(in.size() ? in.size() : 1)); std::memcpy(block, in.data(), in.size());
            std::ostringstream e2; auto r2 = p.parse(po, string_view_buffer(std::string_view(block, in.size())), e2);
            std::free(block);
            std::ostringstream e3; auto r3 = p.parse(po, string_buffer(std::string(in)), e3);
            ++g_checks; if (r1 != r2 || r1 != r3) fail(in, "buffer kinds disagree: user " + show(r1) + ", string_view " + show(r2) + ", string " + show(r3));
            if (opt == 0) {
                // buffer objects are values: a copy and a moved-to object must be self-contained (the original is destroyed and its storage overwritten before parsing)
                auto* orig = new string_buffer(std::string(in) + std::string(40, '#'));          // long enough not to sit in a small-string buffer
                std::ostringstream ew, ec, em, ev; std::optional<int> want = p.parse(po, *orig, ew);
                string_buffer copy(*orig); auto* orig2 = new string_buffer(std::string(in) + std::string(40, '#')); string_buffer moved(std::move(*orig2));
                delete orig; delete orig2; { std::string scribble(in.size() + 40, '\x01'); (void)scribble; }
                std::vector<string_buffer> vec; vec.emplace_back(std::string(in) + std::string(40, '#')); for (int k = 0; k < 8; ++k) vec.emplace_back(std::string("1+1") + std::string(40, '#'));   // reallocation moves the first element
                auto rc = p.parse(po, copy, ec); auto rm = p.parse(po, moved, em); auto rv = p.parse(po, vec.front(), ev);
                ++g_checks; if (rc != want || rm != want || rv != want) fail(in, "a copied / moved string_buffer parses differently from the original: copy " + show(rc) + ", moved " + show(rm) + ", element of a grown vector " + show(rv) + ", original " + show(want));
            }
            ++g_checks; if (e1.str() != e2.str() || e1.str() != e3.str()) fail(in, "messages differ between buffer kinds");
            if (opt == 0) {
                // the verbose path has its own reads (character names, lexeme text): same oracles
                g_f = Fault{}; std::ostringstream ev1; std::optional<int> rv1; bool hz = false;
                try { rv1 = p.parse(parse_options{}.set_verbose(), checked_buffer(in.data(), in.size()), ev1); } catch (const Horizon&) { hz = true; }
                ++g_checks; if (hz) fail(in, "no termination within the step horizon (verbose, user buffer)");
                else if (g_f.deref_end || g_f.deref_out || g_f.formed_out) fail(in, "verbose parse, user buffer: " + std::to_string(g_f.deref_end) + " reads of end(), " + std::to_string(g_f.deref_out) + " reads outside, " + std::to_string(g_f.formed_out) + " iterators formed outside [begin,end]");
                else if (rv1 != r1) fail(in, "verbose parse gives " + show(rv1) + ", plain parse " + show(r1));
                char* vb = static_cast<char*>(std::malloc(in.size() ? in.size() : 1)); std::memcpy(vb, in.data(), in.size());
                std::ostringstream ev2; auto rv2 = p.parse(parse_options{}.set_verbose(), string_view_buffer(std::string_view(vb, in.size())), ev2); std::free(vb);
                ++g_checks; if (rv2 != r1) fail(in, "verbose parse (string_view) gives " + show(rv2) + ", plain parse " + show(r1));
                bool sup = false; std::optional<int> r4; bool cap = false;
                try { r4 = via_cstring_dispatch(p, in, sup); } catch (const std::runtime_error&) { cap = true; }   // loud capacity failure: judged by C12
                ++g_checks; if (sup && !cap && r4 != r1) fail(in, "cstring_buffer gives " + show(r4) + ", other buffers " + show(r1));
                if (r1) ++g_accept;
            }
        }
    }
}

template<class P> static void sweep(const char* name, const P& p, const std::string& in, std::optional<int> want) {
    g_cur_g = name; g_cur_in = in.substr(0, 16); ++g_sweeps;
    std::ostringstream es; auto r = p.parse(string_buffer(std::string(in)), es);
    ++g_checks; if (r != want) { ++g_fail; if (g_first.empty()) g_first = std::string("sweep ") + name + " length " + std::to_string(in.size()) + ": got " + show(r) + " expected " + show(want); }
    char* block = static_cast<char*>(std::malloc(in.size() ? in.size() : 1)); std::memcpy(block, in.data(), in.size());
    auto r2 = p.parse(string_view_buffer(std::string_view(block, in.size()))); std::free(block);
    ++g_checks; if (r2 != want) { ++g_fail; if (g_first.empty()) g_first = std::string("sweep ") + name + " (string_view) length " + std::to_string(in.size()); }
}

int main(int argc, char** argv) {
    int n = argc > 1 ? std::atoi(argv[1]) : 4;
    alarm(1500);
    run_grammar("expr", p_expr, std::string("1+*()", 5) + std::string("\0\x80 \n", 4), n);
    run_grammar("recovery", p_rec, std::string("x;y", 3) + std::string("\0\xff \n", 4), n);
    run_grammar("numbers", p_num, std::string("1,a", 3) + std::string("\0\x80\xff \n", 5), n);
    for (int d : {10, 100, 1000, 1021, 1022, 1023, 1024, 1025, 2046, 2047, 2048, 2049, 4095, 4096, 10000, 65534, 65535, 65536, 65537, 100000}) {   // around the vectors' reserved size (1024), its doublings and the 16-bit limit
        sweep("expr-nesting", p_expr, std::string(d, '(') + "1" + std::string(d, ')'), 1);
        sweep("expr-nesting-unclosed", p_expr, std::string(d, '(') + "1", std::nullopt);
        std::string chain = "1"; for (int i = 0; i < d; ++i) chain += "+1"; sweep("expr-chain", p_expr, chain, d + 1);
        sweep("recovery-long", p_rec, std::string(d, 'x') + ";", d);
        sweep("recovery-long-error", p_rec, std::string(d, 'x') + "y" + std::string(d, 'x') + ";", -1);
        sweep("whitespace-only", p_rec, std::string(d, ' '), std::nullopt);
        sweep("right-recursion-empty-tail", p_rl, std::string(d, 'x'), d);
        sweep("numbers-long-lexeme", p_num, std::string(d, '1'), to_int(std::string(d, '1')));
    }
    std::string esc; for (char c : g_first) { if (c == '"' || c == '\\') esc += '\\'; esc += c; }
    std::printf("{\"cases\": %ld, \"checks\": %ld, \"failures\": %ld, \"accepted\": %ld, \"sweeps\": %ld, \"first_failure\": \"%s\"}\n", g_cases, g_checks, g_fail, g_accept, g_sweeps, esc.c_str());
    return g_fail ? 1 : 0;
}
