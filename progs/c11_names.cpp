// C11 (compiled part): the diagnostics of a grammar whose terms have display names that differ from their ids (regex terms with a custom name, bare and wrapped in a
// typed term, an unnamed regex term, a regex term with an empty name) and a custom-lexer grammar. Every symbol the text mentions - in the RULES section, in item lines
// (also the lookahead after "==>") and in "On <symbol>" lines - must be the display name of a declared symbol, and the same symbol must be spelled the same way
// everywhere; the text must list exactly the declared rules. Black box.
#include <ctpg/ctpg.hpp>
#include <cstdio>
#include <set>
#include <sstream>
#include <string>
#include <vector>

using namespace ctpg;
using namespace ctpg::ftors;

static long g_cases = 0, g_checks = 0, g_fail = 0; static std::string g_first;
static void fail(const std::string& g, const std::string& what) { ++g_fail; if (g_first.empty()) g_first = g + ": " + what; }

constexpr char number_pattern[] = "[0-9]+"; constexpr regex_term<number_pattern> number(0);              // unnamed: r_[0-9]+
constexpr char ident_pattern[] = "[a-z]+"; constexpr regex_term<ident_pattern> ident_raw("ident");
constexpr char op_pattern[] = "[-*]"; constexpr regex_term<op_pattern> op("operator");
constexpr char blank_pattern[] = "_+"; constexpr regex_term<blank_pattern> blank("");                    // empty display name
constexpr nterm<int> prog("prog"); constexpr nterm<int> stmt("stmt"); constexpr nterm<int> expr("expr");
static int ident_len(std::string_view sv) { return int(sv.size()); }

template<class P> static void check_diag(const std::string& gname, const P& p, const std::set<std::string>& terms, const std::set<std::string>& nterms, size_t nrules, const std::vector<std::string>& forbidden) {
    std::ostringstream ds; p.write_diag_str(ds); std::string text = ds.str();
    std::istringstream in(text); std::string line; int section = 0; size_t rules_seen = 0; long lookaheads = 0, ons = 0;
    ++g_cases;
    while (std::getline(in, line)) {
        if (line == "RULES") { section = 1; continue; } if (line == "STATES") { section = 2; continue; } if (line == "LEXICAL ANALYZER") { section = 3; continue; }
        if (line.empty() || section == 0 || section == 3) continue;
        auto words = [](const std::string& s) { std::vector<std::string> w; std::istringstream is(s); std::string x; while (is >> x) w.push_back(x); return w; };
        if (section == 1) { auto w = words(line); if (w.size() < 3 || w[2] != "<-") continue; ++rules_seen; ++g_checks;
            if (!nterms.count(w[1])) fail(gname, "RULES line '" + line + "': left side is not a declared nonterminal name");
            for (size_t k = 3; k < w.size(); ++k) if (!terms.count(w[k]) && !nterms.count(w[k])) fail(gname, "RULES line '" + line + "': '" + w[k] + "' is not the display name of a declared symbol");
            continue; }
        if (line.rfind("STATE ", 0) == 0) continue;
        size_t arrow = line.find(" ==> ");
        if (arrow != std::string::npos) { ++lookaheads; ++g_checks; std::string la = line.substr(arrow + 5); while (!la.empty() && la.back() == ' ') la.pop_back();
            if (!terms.count(la)) fail(gname, "item line '" + line + "': the lookahead '" + la + "' is not the display name of a declared term");
            auto w = words(line.substr(0, arrow)); for (size_t k = 0; k < w.size(); ++k) if (w[k] != "<-" && w[k] != "." && !terms.count(w[k]) && !nterms.count(w[k])) fail(gname, "item line '" + line + "': '" + w[k] + "' is not the display name of a declared symbol");
            continue; }
        if (line.rfind("On ", 0) == 0) { ++ons; ++g_checks; auto w = words(line); if (w.size() < 2 || (!terms.count(w[1]) && !nterms.count(w[1]))) fail(gname, "action line '" + line + "': not the display name of a declared symbol"); }
    }
    ++g_checks; if (rules_seen != nrules + 1) fail(gname, "RULES section lists " + std::to_string(rules_seen) + " rules, the grammar has " + std::to_string(nrules) + " (+ the augmented root rule)");
    ++g_checks; if (!lookaheads || !ons) fail(gname, "no item / action lines found in the diagnostics");
    for (const std::string& f : forbidden) { ++g_checks; if (text.substr(0, text.find("LEXICAL ANALYZER")).find(f) != std::string::npos) fail(gname, "the parser section mentions '" + f + "', which is an internal id, not a display name"); }
}

struct tiny_lexer { template<typename It, typename ES> constexpr recognized_term match(match_options, source_point, It s, It e, ES&) { if (s == e) return {}; char c = *s; return c == 'n' ? recognized_term(0, 1) : c == ',' ? recognized_term(1, 1) : recognized_term{}; } };

int main() {
    {   static const typed_term ident(ident_raw, ident_len);
        static const parser p(prog, terms("if", ident, number, op, ';', '\x01'), nterms(prog, stmt, expr), rules(
            prog() >= val(0), prog(prog, stmt, ';') >= [](int n, int, skip) { return n + 1; },
            stmt("if", ident) >= val(0), stmt(expr) >= _e1, stmt('\x01') >= val(0),
            expr(number) >= val(1), expr(ident) >= [](const auto& t) { return t.get_value(); }, expr(expr, op, expr) >= [](int a, skip, int b) { return a + b; }));
        check_diag("grammar with named, typed and unnamed regex terms", p, {"if", "ident", "r_[0-9]+", "operator", ";", "\\x01", "<eof>", "<error_recovery_token>"}, {"prog", "stmt", "expr", "##"}, 8, {"r_[a-z]+", "r_[-*]"}); }
    {   static const parser p(prog, terms(blank, ident_raw), nterms(prog), rules(prog(ident_raw) >= val(1), prog(prog, blank, ident_raw) >= [](int n, skip, skip) { return n + 1; }));
        std::ostringstream ds; p.write_diag_str(ds); ++g_cases; ++g_checks;
        if (ds.str().substr(0, ds.str().find("LEXICAL ANALYZER")).find("r__+") != std::string::npos) fail("regex term with an empty display name", "the parser section prints the internal id r__+ for a term whose display name is empty");
        std::ostringstream es; auto r = p.parse(buffers::string_buffer("ab__cd __ __"), es); ++g_checks;
        if (r || es.str() != "[1:11] PARSE: Syntax error: Unexpected ''\n") fail("regex term with an empty display name", "message '" + es.str() + "' expected '[1:11] PARSE: Syntax error: Unexpected ''\\n'"); }
    {   static const custom_term num("number", [](auto) { return 1; }); static const custom_term comma("comma-sign", create<no_type>{});
        static const parser p(expr, terms(num, comma), nterms(expr), rules(expr(num), expr(expr, comma, num) >= [](int a, skip, int b) { return a + b; }), use_lexer<tiny_lexer>{});
        check_diag("custom-lexer grammar", p, {"number", "comma-sign", "<eof>", "<error_recovery_token>"}, {"expr", "##"}, 2, {}); }
    std::string esc; for (char c : g_first) { if (c == '"' || c == '\\') esc += '\\'; if (c == '\n') { esc += ' '; continue; } esc += c; }
    std::printf("{\"cases\": %ld, \"checks\": %ld, \"failures\": %ld, \"first_failure\": \"%s\"}\n", g_cases, g_checks, g_fail, esc.c_str());
    return g_fail ? 1 : 0;
}
