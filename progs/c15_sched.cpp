// C15: a parser object is immutable - histories (explicit enumeration of call sequences) and schedules (stateless,
// preemption-bounded exploration of two threads calling into the same parser object). Black box: public interface only.
//   c15 hist <depth>            every call sequence up to <depth> over the call alphabet, one forked child per sequence
//   c15 sched <bound> <k>/<n>   every schedule of two concurrent calls with at most <bound> preemptions (shard k of n)
//   c15 free <rounds>           the same call bodies free-running on 3 threads (built with -fsanitize=thread)
// The parser object lives in its own mmap'ed pages which are made read-only after construction: any write to it faults.
#include <ctpg/ctpg.hpp>
#include <condition_variable>
#include <csignal>
#include <cstdio>
#include <cstdlib>
#include <cstring>
#include <functional>
#include <mutex>
#include <new>
#include <sstream>
#include <string>
#include <thread>
#include <vector>
#include <sys/mman.h>
#include <sys/wait.h>
#include <unistd.h>

using namespace ctpg;
using namespace ctpg::ftors;
using namespace ctpg::buffers;

// ------------------------------------------------------------------------------------------------ scheduler (baton passing)
struct Sched {
    bool on = false;
    std::mutex m; std::condition_variable cv;
    int n = 2; int turn = 0; bool alive[4] = {false, false, false, false};
    std::vector<int> choices, taken, alts; int preemptions = 0, bound = 0; bool diverged = false;
    static thread_local int me;
    int choose(int nalt) {   // replay the prefix, then default 0; record what was possible (caller holds the lock)
        size_t k = taken.size(); int c = k < choices.size() ? choices[k] : 0;
        if (c >= nalt) { diverged = true; c = 0; }
        taken.push_back(c); alts.push_back(nalt); return c;
    }
    std::vector<int> others() const { std::vector<int> o; for (int t = 0; t < n; ++t) if (t != me && alive[t]) o.push_back(t); return o; }
    void point() {
        if (!on) return;
        std::unique_lock<std::mutex> lk(m);
        std::vector<int> o = others();
        if (o.empty()) return;
        int c = choose(preemptions < bound ? 1 + (int)o.size() : 1);
        if (c >= 1) { ++preemptions; turn = o[c - 1]; cv.notify_all(); cv.wait(lk, [&] { return turn == me; }); }
    }
    void pick_first() { std::unique_lock<std::mutex> lk(m); turn = choose(n); }   // which thread runs first is a choice too
    void start(int id) { me = id; if (!on) return; std::unique_lock<std::mutex> lk(m); cv.wait(lk, [&] { return turn == me; }); }
    void finish() {
        if (!on) return;
        std::unique_lock<std::mutex> lk(m); alive[me] = false;
        std::vector<int> o = others();
        if (!o.empty()) { turn = o[choose((int)o.size())]; cv.notify_all(); }   // who continues after a thread ends: free choice, no preemption
    }
};
thread_local int Sched::me = 0;
static Sched* S = nullptr;
static inline void sp() { if (S) S->point(); }

// ------------------------------------------------------------------------------------------------ seams: buffer, stream, functors
class seam_buffer {
public:
    seam_buffer(const std::string& s) : b(s.data()), n(long(s.size())) {}
    struct iterator {
        const char* b; long pos, n;
        char operator*() const { sp(); return pos >= 0 && pos < n ? b[pos] : 0; }
        iterator& operator++() { sp(); ++pos; return *this; }
        iterator operator++(int) { iterator i(*this); ++pos; return i; }
        bool operator==(const iterator& o) const { return pos == o.pos; }
        bool operator!=(const iterator& o) const { return pos != o.pos; }
        iterator& operator+=(size_t k) { pos += long(k); return *this; }
        iterator operator+(size_t k) const { iterator i(*this); i.pos += long(k); return i; }
        long operator-(const iterator& o) const { return pos - o.pos; }
    };
    iterator begin() const { return iterator{b, 0, n}; }
    iterator end() const { return iterator{b, n, n}; }
    std::string_view get_view(iterator s, iterator e) const { return std::string_view(b + s.pos, size_t(e.pos - s.pos)); }
private:
    const char* b; long n;
};
struct seam_stream { std::string text; template<class X> seam_stream& operator<<(const X& x) { sp(); std::ostringstream o; o << x; text += o.str(); return *this; } };

struct Ctx { int counter = 0; };
static thread_local std::string* t_log = nullptr;   // per-call functor log
static void logf(const char* s) { sp(); if (t_log) *t_log += s; }

// re-entrancy: when t_nested is set, the functor of stmt(word) starts a complete second parse on the SAME parser object in the middle of the first
static thread_local const char* t_nested = nullptr; static thread_local bool t_in_nested = false;
static void maybe_nested_parse();
// a parse that is left by an exception: when t_throw is set the functor of stmt(word, '=', word) throws
struct FunctorError {}; static thread_local bool t_throw = false;
// parser 1: generated lexer, typed term, error rule
static int word_value(std::string_view sv) { logf("w"); return int(sv.size()); }
constexpr char word_pattern[] = "[a-z]+";
constexpr nterm<int> stmts("stmts"); constexpr nterm<int> stmt("stmt");
static auto* make_p1(void* mem) {
    static const typed_term word(regex_term<word_pattern>("word"), word_value);
    return new (mem) parser(stmts, terms(word, ';', '='), nterms(stmts, stmt), rules(
        stmts() >= [] { logf("0"); return 0; },
        stmts(stmts, stmt, ';') >= [](int a, int b, skip) { logf("S"); return a * 10 + b; },
        stmts(stmts, error, ';') >= [](int a, skip, skip) { logf("E"); return a * 10 + 9; },
        stmt(word) >= [](const auto& w) { logf("1"); maybe_nested_parse(); return w.get_value(); },
        stmt(word, '=', word) >>= [](auto&& ctx, const auto& a, skip, const auto& b) { logf("2"); if (t_throw) throw FunctorError{}; if constexpr (std::is_same_v<std::decay_t<decltype(ctx)>, Ctx>) ctx.counter++; return a.get_value() + b.get_value(); }));
}
using P1 = std::remove_pointer_t<decltype(make_p1(nullptr))>;

// parser 2: custom lexer
struct word_lexer {
    int scratch = 0;   // a lexer may keep scratch state in its own members; wherever the library keeps the lexer object, it must not be inside the (immutable) parser
    template<typename Iterator, typename ErrorStream>
    constexpr recognized_term match(match_options, source_point, Iterator start, Iterator end, ErrorStream&) {
        sp(); ++scratch;
        if (start == end) return recognized_term{};
        char c = *start;
        if (c == ',') return recognized_term(0, 1);
        if (c >= '0' && c <= '9') { size_t n = 0; Iterator it = start; while (it != end && *it >= '0' && *it <= '9') { ++it; ++n; } return recognized_term(1, n); }
        return recognized_term{};
    }
};
constexpr nterm<int> nlist("nlist");
static auto* make_p2(void* mem) {
    static const custom_term comma(",", [](auto) { logf("c"); return 0; });
    static const custom_term num("num", [](auto sv) { logf("n"); int v = 0; for (char c : sv) v = v * 10 + (c - '0'); return v; });
    return new (mem) parser(nlist, terms(comma, num), nterms(nlist), rules(
        nlist(num) >= [](int n) { logf("A"); return n; },
        nlist(nlist, comma, num) >= [](int a, int, int b) { logf("B"); return a + b; }), use_lexer<word_lexer>{});
}
using P2 = std::remove_pointer_t<decltype(make_p2(nullptr))>;

template<class P> struct Held { P* p = nullptr; void* mem = nullptr; size_t len = 0; };
template<class P, class Make> static Held<P> build_protected(Make make) {
    Held<P> h; size_t pg = size_t(sysconf(_SC_PAGESIZE)); h.len = (sizeof(P) + pg - 1) / pg * pg;
    h.mem = mmap(nullptr, h.len, PROT_READ | PROT_WRITE, MAP_PRIVATE | MAP_ANONYMOUS, -1, 0);
    h.p = make(h.mem);
    mprotect(h.mem, h.len, PROT_READ);
    return h;
}

// ------------------------------------------------------------------------------------------------ the call alphabet
struct Obs { std::string text; bool operator==(const Obs& o) const { return text == o.text; } };
struct Call { const char* name; std::function<Obs()> run; };
static std::string show(const std::optional<int>& r) { return r ? std::to_string(*r) : std::string("empty"); }

static Held<P1> H1; static Held<P2> H2;
static std::string nested_obs(const char* in) { std::string log; std::string* outer = t_log; t_log = &log; seam_stream es; std::string s(in); auto r = H1.p->parse(parse_options{}, seam_buffer(s), es); t_log = outer; return show(r) + "|" + log + "|" + es.text; }
static void maybe_nested_parse() { if (!t_nested || t_in_nested) return; t_in_nested = true; std::string n = nested_obs(t_nested); t_in_nested = false; if (t_log) *t_log += "[" + n + "]"; }
static std::vector<Call> alphabet() {
    auto p1 = [](const char* in, bool verbose) { return [in, verbose]() { std::string log; t_log = &log; seam_stream es; std::string s(in);
        auto r = H1.p->parse(parse_options{}.set_verbose(verbose), seam_buffer(s), es); t_log = nullptr; return Obs{show(r) + "|" + log + "|" + es.text}; }; };
    std::vector<Call> A;
    A.push_back({"p1 accept 'ab;c=d;'", p1("ab;c=d;", false)});
    A.push_back({"p1 recover 'a b;c;'", p1("a b;c;", false)});
    A.push_back({"p1 fail at eof 'a;b'", p1("a;b", false)});
    A.push_back({"p1 lexical error 'a;?;'", p1("a;?;", false)});
    A.push_back({"p1 failing recovery 'a = ='", p1("a = =", false)});
    A.push_back({"p1 verbose 'x;'", p1("x;", true)});
    A.push_back({"p1 context_parse 'a=b;c=d;'", []() { std::string log; t_log = &log; seam_stream es; Ctx c; std::string s("a=b;c=d;");
        auto r = H1.p->context_parse(c, parse_options{}, seam_buffer(s), es); t_log = nullptr; return Obs{show(r) + "|" + log + "|" + es.text + "|ctx=" + std::to_string(c.counter)}; }});
    // the library's own buffer kinds and non-default options (paths that depend on the iterator type and on the options)
    auto p1sv = [](const char* in, bool ws, bool nl) { return [in, ws, nl]() { std::string log; t_log = &log; std::ostringstream es; std::string s(in);
        auto r = H1.p->parse(parse_options{}.set_skip_whitespace(ws).set_skip_newline(nl), string_view_buffer(std::string_view(s)), es); t_log = nullptr; return Obs{show(r) + "|" + log + "|" + es.str()}; }; };
    A.push_back({"p1 string_view default options 'a b;\\nc;'", p1sv("a b;\nc;", true, true)});
    A.push_back({"p1 string_view skip_newline=false 'a;\\nb;'", p1sv("a;\nb;", true, false)});
    A.push_back({"p1 string_buffer skip_whitespace=false 'a;b;'", []() { std::string log; t_log = &log; std::ostringstream es; auto r = H1.p->parse(parse_options{}.set_skip_whitespace(false), string_buffer("a;b; c;"), es); t_log = nullptr; return Obs{show(r) + "|" + log + "|" + es.str()}; }});
    A.push_back({"p1 re-entrant: 'ab;x;c=d;' whose functor parses 'q=r; z z;y;' on the same object", []() {
        const char* outer_in = "ab;x;c=d;"; const char* inner_in = "q=r; z z;y;";
        std::string log; t_log = &log; seam_stream es; std::string s(outer_in);
        t_nested = inner_in; auto r = H1.p->parse(parse_options{}, seam_buffer(s), es); t_nested = nullptr; t_log = nullptr;
        std::string got = show(r) + "|" + log + "|" + es.text;
        // absolute oracle: the inner parse observes what it observes on its own, the outer parse what it observes without the inner one
        std::string inner = nested_obs(inner_in); std::string plain_log; t_log = &plain_log; seam_stream es2; auto r2 = H1.p->parse(parse_options{}, seam_buffer(s), es2); t_log = nullptr;
        std::string want_log; for (char c : plain_log) { want_log += c; if (c == '1') want_log += "[" + inner + "]"; }
        std::string want = show(r2) + "|" + want_log + "|" + es2.text;
        return Obs{got == want ? got : "REENTRANCY-MISMATCH got '" + got + "' expected '" + want + "'"}; }});
    A.push_back({"p1 parse left by an exception thrown from a functor 'a;b=c;d;'", []() { std::string log; t_log = &log; seam_stream es; std::string s("a;b=c;d;"); std::string out;
        t_throw = true; try { auto r = H1.p->parse(parse_options{}, seam_buffer(s), es); out = show(r); } catch (const FunctorError&) { out = "threw"; } t_throw = false; t_log = nullptr; return Obs{out + "|" + log + "|" + es.text}; }});
    A.push_back({"p1 string_view parse left by an exception 'a;b=c;'", []() { std::string log; t_log = &log; std::ostringstream es; std::string s("a;b=c;"); std::string out;
        t_throw = true; try { auto r = H1.p->parse(string_view_buffer(std::string_view(s)), es); out = show(r); } catch (const FunctorError&) { out = "threw"; } t_throw = false; t_log = nullptr; return Obs{out + "|" + log + "|" + es.str()}; }});
    A.push_back({"p1 write_diag_str", []() { std::ostringstream o; H1.p->write_diag_str(o); return Obs{std::to_string(o.str().size()) + ":" + std::to_string(std::hash<std::string>{}(o.str()))}; }});
    auto p2 = [](const char* in) { return [in]() { std::string log; t_log = &log; seam_stream es; std::string s(in); auto r = H2.p->parse(parse_options{}, seam_buffer(s), es); t_log = nullptr; return Obs{show(r) + "|" + log + "|" + es.text}; }; };
    A.push_back({"p2 accept '12,3,40'", p2("12,3,40")});
    A.push_back({"p2 syntax error '1,,2'", p2("1,,2")});
    A.push_back({"p2 lexical error '1,x'", p2("1,x")});
    return A;
}

// ------------------------------------------------------------------------------------------------ image of the program's own writable data
extern "C" char __data_start, _edata, __bss_start, _end;
struct Image { std::vector<char> data, bss; };
static Image snapshot() { Image i; i.data.assign(&__data_start, &_edata); i.bss.assign(&__bss_start, &_end); return i; }
static long image_diff(const Image& a, const Image& b, const std::vector<std::pair<long, long>>& ignore, long* where) {
    long n = 0; auto ign = [&](long off) { for (auto& r : ignore) if (off >= r.first && off < r.second) return true; return false; };
    for (size_t k = 0; k < a.data.size(); ++k) if (a.data[k] != b.data[k] && !ign(long(k))) { if (!n) *where = long(k); ++n; }
    for (size_t k = 0; k < a.bss.size(); ++k) if (a.bss[k] != b.bss[k] && !ign(long(a.data.size() + k))) { if (!n) *where = long(a.data.size() + k); ++n; }
    return n;
}

static void crash(int sig) { const char m[] = "CHILD-FAULT\n"; if (write(1, m, sizeof m - 1) < 0) {} _exit(40 + sig); }

// run `f` in a forked child, return what it printed (and the exit status)
static std::string in_child(const std::function<void()>& f, int* status) {
    int fd[2]; if (pipe(fd) != 0) { std::perror("pipe"); std::exit(2); }
    fflush(stdout);
    pid_t pid = fork();
    if (pid == 0) { close(fd[0]); dup2(fd[1], 1); signal(SIGSEGV, crash); signal(SIGBUS, crash); alarm(60); f(); fflush(stdout); _exit(0); }
    close(fd[1]); std::string out; char buf[4096]; ssize_t n;
    while ((n = read(fd[0], buf, sizeof buf)) > 0) out.append(buf, size_t(n));
    close(fd[0]); waitpid(pid, status, 0);
    return out;
}

static std::string json_escape(const std::string& s) { std::string o; for (char c : s) { if (c == '"' || c == '\\') { o += '\\'; o += c; } else if (c == '\n') o += "\\n"; else if ((unsigned char)c < 0x20) o += '?'; else o += c; } return o; }

// ------------------------------------------------------------------------------------------------ hist
static int run_hist(int depth) {
    std::vector<Call> A = alphabet(); size_t K = A.size();
    // isolated observation of every call: first call in a fresh process
    std::vector<std::string> iso(K);
    long histories = 0, calls = 0, failures = 0; std::string first;
    std::vector<size_t> seq;
    std::function<void(int)> rec = [&](int d) {
        if ((int)seq.size() == d) {
            ++histories;
            int st = 0;
            std::string out = in_child([&] {
                H1 = build_protected<P1>(make_p1); H2 = build_protected<P2>(make_p2);
                // warm-up of lazily initialised harness/runtime state (iostream locale etc.) with a throw-away parser-independent stream use
                { std::ostringstream w; w << 1 << "x" << source_point{}; }
                Image base = snapshot();
                std::vector<char> img1((char*)H1.mem, (char*)H1.mem + sizeof(P1)), img2((char*)H2.mem, (char*)H2.mem + sizeof(P2));
                for (size_t k = 0; k < seq.size(); ++k) {
                    Obs o = A[seq[k]].run();
                    if (k + 1 == seq.size()) std::printf("OBS %s\n", json_escape(o.text).c_str());
                    Image now = snapshot(); long where = 0; long nd = image_diff(base, now, {}, &where);
                    if (nd) { std::printf("IMAGE %ld bytes of the program's static data changed (first at offset %ld) after call %zu\n", nd, where, k); break; }
                    if (std::memcmp(img1.data(), H1.mem, sizeof(P1)) || std::memcmp(img2.data(), H2.mem, sizeof(P2))) { std::printf("OBJECT parser object bytes changed after call %zu\n", k); break; }
                }
            }, &st);
            calls += (long)seq.size();
            std::string name; for (size_t k : seq) { if (!name.empty()) name += " ; "; name += A[k].name; }
            std::string obs; size_t p = out.find("OBS "); if (p != std::string::npos) obs = out.substr(p + 4, out.find('\n', p) - p - 4);
            std::string problem;
            if (!WIFEXITED(st) || WEXITSTATUS(st) != 0 || out.find("CHILD-FAULT") != std::string::npos) problem = "a call wrote to the read-only parser object or crashed (status " + std::to_string(st) + ")";
            else if (out.find("IMAGE ") != std::string::npos) problem = out.substr(out.find("IMAGE ") + 6, out.find('\n', out.find("IMAGE ")) - out.find("IMAGE ") - 6);
            else if (out.find("OBJECT ") != std::string::npos) problem = "the parser object was modified";
            else if (obs.find("REENTRANCY-MISMATCH") != std::string::npos) problem = "a parse started from inside a functor of the same parser object interfered with the outer parse: " + obs;
            else if (d == 1) iso[seq[0]] = obs;
            else if (obs != iso[seq.back()]) problem = "last call observed '" + obs + "' but in isolation it observes '" + iso[seq.back()] + "'";
            if (!problem.empty()) { ++failures; if (first.empty()) first = "history [" + name + "]: " + problem; }
            return;
        }
        for (size_t k = 0; k < K; ++k) { seq.push_back(k); rec(d); seq.pop_back(); }
    };
    for (int d = 1; d <= depth; ++d) rec(d);
    std::printf("{\"cases\": %ld, \"checks\": %ld, \"failures\": %ld, \"histories\": %ld, \"alphabet\": %zu, \"depth\": %d, \"first_failure\": \"%s\"}\n", histories, calls, failures, histories, K, depth, json_escape(first).c_str());
    return failures ? 1 : 0;
}

// ------------------------------------------------------------------------------------------------ sched
struct ExecResult { std::vector<int> taken, alts; std::vector<std::string> obs; bool fault = false, diverged = false; };
static ExecResult run_schedule(const std::vector<Call>& A, const std::vector<size_t>& calls, const std::vector<int>& prefix, int bound) {
    int st = 0; const int N = (int)calls.size();
    std::string out = in_child([&] {
        H1 = build_protected<P1>(make_p1); H2 = build_protected<P2>(make_p2);
        Sched sc; sc.on = true; sc.n = N; sc.choices = prefix; sc.bound = bound; for (int t = 0; t < N; ++t) sc.alive[t] = true; S = &sc;
        sc.pick_first();
        std::vector<Obs> o(N); std::vector<std::thread> th;
        for (int t = 0; t < N; ++t) th.emplace_back([&, t] { sc.start(t); o[t] = A[calls[t]].run(); sc.finish(); });
        for (auto& x : th) x.join(); S = nullptr;
        std::printf("T"); for (int x : sc.taken) std::printf(" %d", x); std::printf("\nA"); for (int x : sc.alts) std::printf(" %d", x); std::printf("\n");
        for (int t = 0; t < N; ++t) std::printf("O%d %s\n", t, json_escape(o[t].text).c_str());
        if (sc.diverged) std::printf("DIVERGED\n");
    }, &st);
    ExecResult r; r.obs.resize(N); r.fault = !WIFEXITED(st) || WEXITSTATUS(st) != 0 || out.find("CHILD-FAULT") != std::string::npos; r.diverged = out.find("DIVERGED") != std::string::npos;
    std::istringstream in(out); std::string line;
    while (std::getline(in, line)) {
        if (line.rfind("T", 0) == 0 && (line.size() == 1 || line[1] == ' ')) { std::istringstream l(line.substr(1)); int x; while (l >> x) r.taken.push_back(x); }
        else if (line.rfind("A", 0) == 0 && (line.size() == 1 || line[1] == ' ')) { std::istringstream l(line.substr(1)); int x; while (l >> x) r.alts.push_back(x); }
        else if (line.size() > 3 && line[0] == 'O' && line[1] >= '0' && line[1] <= '3' && line[2] == ' ') r.obs[line[1] - '0'] = line.substr(3);
    }
    return r;
}

static int run_sched(int bound, int shard, int nshards, int nthreads) {
    std::vector<Call> A = alphabet();
    // isolated observations
    std::vector<std::string> iso(A.size());
    for (size_t k = 0; k < A.size(); ++k) { int st = 0; std::string out = in_child([&] { H1 = build_protected<P1>(make_p1); H2 = build_protected<P2>(make_p2); Obs o = A[k].run(); std::printf("OBS %s\n", json_escape(o.text).c_str()); }, &st); size_t p = out.find("OBS "); iso[k] = p == std::string::npos ? "?" : out.substr(p + 4, out.find('\n', p) - p - 4); }
    // pairs of calls that share one parser object
    auto idx = [&](const char* prefix) { for (size_t k = 0; k < A.size(); ++k) if (std::string(A[k].name).rfind(prefix, 0) == 0) return k; std::printf("{\"harness_error\": \"no call %s\"}\n", prefix); std::exit(2); };
    size_t acc = idx("p1 accept"), rec = idx("p1 recover"), lexe = idx("p1 lexical"), ctx = idx("p1 context_parse"), frec = idx("p1 failing recovery"), verb = idx("p1 verbose"), diag = idx("p1 write_diag_str"), q1 = idx("p2 accept"), q2 = idx("p2 syntax"), q3 = idx("p2 lexical"), sv1 = idx("p1 string_view default"), sv2 = idx("p1 string_view skip_newline");
    size_t reent = idx("p1 re-entrant");
    size_t thr = idx("p1 parse left by an exception");
    std::vector<std::vector<size_t>> pairs = {{thr, acc}, {reent, rec}, {acc, rec}, {rec, acc}, {rec, lexe}, {ctx, acc}, {acc, acc}, {frec, rec}, {verb, ctx}, {q1, q2}, {q2, q3}, {diag, rec}, {sv1, sv2}, {sv2, rec}};
    if (nthreads == 3) pairs = {{acc, rec, lexe}, {ctx, acc, verb}, {sv1, sv2, rec}, {q1, q2, q3}, {rec, rec, frec}, {diag, ctx, acc}};
    long execs = 0, failures = 0, points = 0; std::string first; size_t maxpoints = 0; size_t npairs = 0;
    for (size_t pi = 0; pi < pairs.size(); ++pi) {
        if ((int)(pi % (size_t)nshards) != shard) continue;   // shards split the work by pair of calls
        auto pr = pairs[pi]; ++npairs;
        std::vector<int> prefix;
        while (true) {
            ExecResult r = run_schedule(A, pr, prefix, bound);
            ++execs; points += (long)r.taken.size(); maxpoints = std::max(maxpoints, r.taken.size());
            std::string sched; for (size_t k = 0; k < r.taken.size(); ++k) if (r.taken[k]) sched += std::to_string(k) + ":" + std::to_string(r.taken[k]) + " ";
            std::string problem;
            if (r.diverged) { std::printf("{\"harness_error\": \"schedule prefix did not replay\"}\n"); return 2; }
            if (r.fault) problem = "a call wrote to the read-only parser object or crashed";
            else for (size_t t = 0; t < pr.size() && problem.empty(); ++t) if (r.obs[t].find("REENTRANCY-MISMATCH") != std::string::npos) problem = "re-entrant parse interfered: " + r.obs[t]; else if (r.obs[t] != iso[pr[t]]) problem = "thread " + std::to_string(t) + " (" + A[pr[t]].name + ") observed '" + r.obs[t] + "', in isolation '" + iso[pr[t]] + "'";
            if (!problem.empty()) { ++failures; if (first.empty()) { std::string names; for (size_t t = 0; t < pr.size(); ++t) names += (t ? " || " : "") + std::string(A[pr[t]].name); first = "calls [" + names + "] non-default choices at points [" + sched + "]: " + problem; } }
            int i = (int)r.taken.size() - 1;
            while (i >= 0 && r.taken[i] + 1 >= r.alts[i]) --i;
            if (i < 0) break;
            prefix.assign(r.taken.begin(), r.taken.begin() + i + 1); prefix[i]++;
        }
    }
    std::printf("{\"cases\": %ld, \"checks\": %ld, \"failures\": %ld, \"schedules\": %ld, \"scheduling_points\": %ld, \"max_points_per_execution\": %zu, \"pairs\": %zu, \"preemption_bound\": %d, \"first_failure\": \"%s\"}\n", execs, execs * nthreads, failures, execs, points, maxpoints, npairs, bound, json_escape(first).c_str());
    return failures ? 1 : 0;
}

// ------------------------------------------------------------------------------------------------ free-running (TSan build)
static int run_free(int rounds) {
    H1 = build_protected<P1>(make_p1); H2 = build_protected<P2>(make_p2);
    std::vector<Call> A = alphabet(); std::vector<std::string> iso(A.size());
    for (size_t k = 0; k < A.size(); ++k) iso[k] = A[k].run().text;
    long mism = 0, calls = 0;
    for (int r = 0; r < rounds; ++r) {
        std::vector<std::thread> th; std::vector<long> bad(3, 0);
        for (int t = 0; t < 3; ++t) th.emplace_back([&, t] { for (size_t k = 0; k < A.size(); ++k) { size_t c = (k + size_t(t) * 3 + size_t(r)) % A.size(); if (A[c].run().text != iso[c]) bad[t]++; } });
        for (auto& x : th) x.join();
        for (long b : bad) mism += b; calls += 3 * (long)A.size();
    }
    std::printf("{\"cases\": %ld, \"checks\": %ld, \"failures\": %ld, \"first_failure\": \"%s\"}\n", calls, calls, mism, mism ? "a call observed something else than in isolation while running concurrently" : "");
    return mism ? 1 : 0;
}

int main(int argc, char** argv) {
    std::string mode = argc > 1 ? argv[1] : "hist";
    if (mode == "hist") return run_hist(argc > 2 ? std::atoi(argv[2]) : 2);
    if (mode == "sched") { int b = argc > 2 ? std::atoi(argv[2]) : 1; int k = 0, n = 1; if (argc > 3) { k = std::atoi(argv[3]); n = std::atoi(std::strchr(argv[3], '/') + 1); } return run_sched(b, k, n, argc > 4 ? std::atoi(argv[4]) : 2); }
    if (mode == "free") return run_free(argc > 2 ? std::atoi(argv[2]) : 20);
    return 2;
}
