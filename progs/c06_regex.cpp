// C06 (standalone regex matcher part): regex::expr<P>::match on every string up to a bound, matching or not,
// through a checked user buffer (records any iterator formed or dereferenced outside [begin, end]), an exact-size
// heap block behind string_view_buffer (ASan sees a one-byte overread), string_buffer and cstring_buffer.
// Black box: public interface only. Built with clang++ -fsanitize=address,undefined.
#include <ctpg/ctpg.hpp>
#include <cstdio>
#include <cstdlib>
#include <cstring>
#include <sstream>
#include <string>
#include <vector>

using namespace ctpg;
using namespace ctpg::buffers;

struct Fault { long deref_end = 0, deref_out = 0, formed_out = 0; } g_f;
class checked_buffer {
public:
    checked_buffer(const char* b, size_t n) : b(b), n(long(n)) {}
    struct iterator {
        const char* b; long pos, n;
        char operator*() const { if (pos == n) { g_f.deref_end++; return 0; } if (pos < 0 || pos > n) { g_f.deref_out++; return 0; } return b[pos]; }
        iterator& operator++() { adv(1); return *this; }
        iterator operator++(int) { iterator i(*this); adv(1); return i; }
        bool operator==(const iterator& o) const { return pos == o.pos; }
        bool operator!=(const iterator& o) const { return pos != o.pos; }
        iterator& operator+=(size_t k) { adv(long(k)); return *this; }
        iterator operator+(size_t k) const { iterator i(*this); i.adv(long(k)); return i; }
        long operator-(const iterator& o) const { return pos - o.pos; }
        void adv(long k) { pos += k; if (pos > n || pos < 0) g_f.formed_out++; }
    };
    iterator begin() const { return iterator{b, 0, n}; }
    iterator end() const { return iterator{b, n, n}; }
    std::string_view get_view(iterator s, iterator e) const { long a = std::min(std::max(s.pos, 0L), n), z = std::min(std::max(e.pos, a), n); return std::string_view(b + a, size_t(z - a)); }
private:
    const char* b; long n;
};

static long g_cases = 0, g_checks = 0, g_fail = 0, g_match = 0; static std::string g_first;
static const char* volatile g_cur_pat = ""; static std::string g_cur_in;
extern "C" void __asan_on_error() { std::fprintf(stderr, "CASE pattern=%s input(hex)=", g_cur_pat); for (unsigned char c : g_cur_in) std::fprintf(stderr, "%02x", c); std::fprintf(stderr, "\n"); }
static std::string hex(const std::string& s) { std::string o; char b[4]; for (unsigned char c : s) { std::snprintf(b, sizeof b, "%02x", c); o += b; } return o; }
static void fail(const char* pat, const std::string& in, const std::string& what) { ++g_fail; if (g_first.empty()) g_first = std::string("pattern ") + pat + " input(hex) " + hex(in) + ": " + what; }

template<auto& P> static void run_pattern(const char* name, const std::vector<std::string>& inputs) {
    static const regex::expr<P> r;
    g_cur_pat = name;
    for (const std::string& in : inputs) {
        g_cur_in = in; ++g_cases;
        g_f = Fault{};
        bool m1 = r.match(checked_buffer(in.data(), in.size()));
        ++g_checks; if (g_f.deref_end || g_f.deref_out || g_f.formed_out) fail(name, in, "user buffer: " + std::to_string(g_f.deref_end) + " reads of end(), " + std::to_string(g_f.deref_out) + " reads outside, " + std::to_string(g_f.formed_out) + " iterators formed outside [begin,end]");
        char* block = static_cast<char*>(std::malloc(in.size() ? in.size() : 1)); std::memcpy(block, in.data(), in.size());
        bool m2 = r.match(string_view_buffer(std::string_view(block, in.size())));
        std::free(block);
        bool m3 = r.match(string_buffer(std::string(in)));
        { g_f = Fault{}; std::ostringstream vs; bool mv = r.match(match_options{}.set_verbose(), checked_buffer(in.data(), in.size()), vs);
          ++g_checks; if (g_f.deref_end || g_f.deref_out || g_f.formed_out) fail(name, in, "verbose match, user buffer: reads outside [begin,end)"); else if (mv != m1) fail(name, in, "verbose match differs");
          char* vb = static_cast<char*>(std::malloc(in.size() ? in.size() : 1)); std::memcpy(vb, in.data(), in.size()); std::ostringstream vs2; bool mv2 = r.match(match_options{}.set_verbose(), string_view_buffer(std::string_view(vb, in.size())), vs2); std::free(vb);
          ++g_checks; if (mv2 != m1) fail(name, in, "verbose match (string_view) differs"); }
        ++g_checks; if (m1 != m2 || m1 != m3) fail(name, in, "buffer kinds disagree");
        if (m1) ++g_match;
    }
    // the const char(&)[N] overload (cstring_buffer), matching and non-matching literals
    ++g_checks; (void)r.match("a"); (void)r.match(""); (void)r.match("zz"); (void)r.match("\x80");
}

constexpr char p1[] = "a+"; constexpr char p2[] = "[a-b]c?"; constexpr char p3[] = "(ab|c)*"; constexpr char p4[] = "\\x80|a{2}"; constexpr char p5[] = "."; constexpr char p6[] = "[^a]b";

// the same calls in constant evaluation: a non-matching match() must be a constant expression too
constexpr regex::expr<p1> ce1; static_assert(ce1.match("aa")); static_assert(!ce1.match("b")); static_assert(!ce1.match("")); static_assert(!ce1.match("ab"));
constexpr regex::expr<p3> ce3; static_assert(ce3.match("abc")); static_assert(!ce3.match("a")); static_assert(ce3.match(""));

int main(int argc, char** argv) {
    int n = argc > 1 ? std::atoi(argv[1]) : 4;
    std::vector<std::string> inputs{""}; const char al[] = {'a', 'b', 'c', '\0', char(0x80)};
    for (size_t lo = 0, l = 0; l < (size_t)n; ++l) { size_t hi = inputs.size(); for (size_t i = lo; i < hi; ++i) for (char c : al) inputs.push_back(inputs[i] + c); lo = hi; }
    run_pattern<p1>(p1, inputs); run_pattern<p2>(p2, inputs); run_pattern<p3>(p3, inputs); run_pattern<p4>("\\\\x80|a{2}", inputs); run_pattern<p5>(p5, inputs); run_pattern<p6>(p6, inputs);
    std::string esc; for (char c : g_first) { if (c == '"' || c == '\\') esc += '\\'; esc += c; }
    std::printf("{\"cases\": %ld, \"checks\": %ld, \"failures\": %ld, \"matching\": %ld, \"first_failure\": \"%s\"}\n", g_cases, g_checks, g_fail, g_match, esc.c_str());
    return g_fail ? 1 : 0;
}
