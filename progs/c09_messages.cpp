// C09 (compiled part): failure reports for every kind of term - a regex term without custom name, one with a custom name,
// a string term, a typed term, a char term, a non-printable char term - on every input up to a bound over the grammar's
// bytes plus space, newline and a foreign byte; no error rules. Oracle: a reference tokenizer (longest match, first listed
// wins) + the documented driver on a reference LR(1) table: exactly one message, naming the first offending term (by its
// documented name) or byte at its true [line:column]; nothing on success. Black box.
#include <ctpg/ctpg.hpp>
#define REF_MAXT 8
#include "../ref/lr1.hpp"
#include <cstdio>
#include <cstdlib>
#include <sstream>
#include <string>
#include <vector>

using namespace ctpg;
using namespace ctpg::ftors;
using namespace ctpg::buffers;

constexpr char number_pattern[] = "[0-9]+"; constexpr regex_term<number_pattern> number(0);         // no custom name: the documented name is r_[0-9]+
constexpr char ident_pattern[] = "[a-z]+"; constexpr regex_term<ident_pattern> ident_raw("ident");   // custom name, wrapped in a typed term below
static int ident_len(std::string_view sv) { return int(sv.size()); }
constexpr nterm<int> prog("prog"); constexpr nterm<int> stmt("stmt");

static auto make_p() {
    static const typed_term plus(char_term('+'), create<no_type>{});
    static const typed_term ident(ident_raw, ident_len);
    return parser(prog, terms("if", ident, number, plus, ';', '\x01'), nterms(prog, stmt), rules(
        prog() >= val(0),
        prog(prog, stmt, ';') >= [](int n, int, skip) { return n + 1; },
        stmt("if", ident) >= val(0),
        stmt(number, plus, number) >= val(0),
        stmt('\x01') >= val(0)));
}

int main(int argc, char** argv) {
    int n = argc > 1 ? std::atoi(argv[1]) : 4;
    static const auto p = make_p();
    // reference grammar: terminals 0 "if", 1 ident, 2 number, 3 '+', 4 ';', 5 '\x01'
    ref::Gram g; g.NT = 2; g.T = 6; int T0 = ref::TERM;
    auto rule = [&](int lhs, std::initializer_list<int> rhs) { int r = g.R++; g.lhs[r] = lhs; g.n[r] = 0; for (int s : rhs) g.rhs[r][g.n[r]++] = s; };
    rule(0, {}); rule(0, {0, 1, T0 + 4}); rule(1, {T0, T0 + 1}); rule(1, {T0 + 2, T0 + 3, T0 + 2}); rule(1, {T0 + 5});
    g.finish(); ref::LR1 lr = ref::build_lr1(g, ref::analyse(g), false);
    if (!lr.conflict_free()) { std::printf("{\"harness_error\": \"reference grammar has conflicts\"}\n"); return 2; }
    const char* names[] = {"if", "ident", "r_[0-9]+", "+", ";", "\\x01", "<eof>"};
    std::vector<std::string> inputs{""}; const char al[] = {'i', 'f', 'a', '7', '+', ';', '\x01', ' ', '\n', '?', '\t'};
    for (size_t lo = 0, l = 0; l < (size_t)n; ++l) { size_t hi = inputs.size(); for (size_t i = lo; i < hi; ++i) for (char c : al) inputs.push_back(inputs[i] + c); lo = hi; }
    for (const char* x : {"if a;7+7;\x01;", "if if;", "if a;\n7+;", "77+7;\n\n  ifa a;", "if a; 7 + 77 ;\n\x01 ; ?"}) inputs.push_back(x);
    // byte sequences a maintainer might be tempted to treat specially: they are ordinary unexpected characters
    for (const char* sq : {"\xef\xbb\xbf", "\xff\xfe", "\xfe\xff", "\xc2\xa0", "\xc2\x85", "\xe2\x80\xa8", "\x1a", "\x7f", "\xa0", "\x0c", "\x0b", "\x0d"}) { std::string q(sq); for (const std::string& x : {q, q + "if a;", "if a;" + q, "if" + q + "a;", q + q + "7+7;"}) inputs.push_back(x); }
    long cases = 0, checks = 0, fails = 0, accepted = 0, lexerr = 0, synerr = 0; std::string first;
    for (int opt = 0; opt < 3; ++opt) for (const std::string& in : inputs) {
        // option combinations: default; skip_newline off (newline is then an unexpected character, tab and space are still skipped); skip_whitespace off
        const bool skip_ws = opt != 2, skip_nl = opt != 1;
        if (opt && in.size() > (size_t)(n > 3 ? n - 1 : n) && (unsigned char)in[0] < 0x80 && in.find('\x1a') == std::string::npos) continue;
        ++cases;
        // reference tokenizer
        std::vector<ref::Tok> toks; std::vector<std::pair<int, int>> pos; bool lexfail = false; std::pair<int, int> failpos{0, 0}; char failbyte = 0;
        size_t i = 0; int line = 1, col = 1;
        auto adv = [&](size_t to) { for (; i < to; ++i) { if (in[i] == '\n') { ++line; col = 1; } else ++col; } };
        while (true) {
            size_t q = i; while (skip_ws && q < in.size() && (in[q] == ' ' || in[q] == '\t' || in[q] == '\v' || in[q] == '\f' || in[q] == '\r' || (in[q] == '\n' && skip_nl))) ++q; adv(q);
            if (i >= in.size()) break;
            char c = in[i]; int term = -1; size_t len = 0;
            if (c >= 'a' && c <= 'z') { size_t e = i; while (e < in.size() && in[e] >= 'a' && in[e] <= 'z') ++e; len = e - i; term = (len == 2 && in[i] == 'i' && in[i + 1] == 'f') ? 0 : 1; }
            else if (c >= '0' && c <= '9') { size_t e = i; while (e < in.size() && in[e] >= '0' && in[e] <= '9') ++e; len = e - i; term = 2; }
            else if (c == '+') { term = 3; len = 1; } else if (c == ';') { term = 4; len = 1; } else if (c == '\x01') { term = 5; len = 1; }
            if (term < 0) { lexfail = true; failpos = {line, col}; failbyte = c; break; }
            toks.push_back(ref::Tok{term, (int)i, (int)len}); pos.push_back({line, col}); adv(i + len);
        }
        std::pair<int, int> eofpos{line, col};
        ref::Run run = ref::drive(g, ref::RefTable{lr}, toks, 4000, lexfail);
        std::string want;
        for (size_t k = 0; k < run.err_tok.size(); ++k) { int ti = run.err_tok[k]; auto pp = ti < (int)pos.size() ? pos[ti] : eofpos; want += "[" + std::to_string(pp.first) + ":" + std::to_string(pp.second) + "] PARSE: Syntax error: Unexpected '" + names[run.err_term[k]] + "'\n"; }
        if (run.lex_error) want += "[" + std::to_string(failpos.first) + ":" + std::to_string(failpos.second) + "] PARSE: Unexpected character: " + std::string(1, failbyte) + "\n";
        std::ostringstream es; auto r = p.parse(parse_options{}.set_skip_whitespace(skip_ws).set_skip_newline(skip_nl), string_buffer(std::string(in)), es);
        {   // the same options set by a chain of setters on a named object (the setters return *this), and one by one
            // the setters called without an argument switch the option ON (set_verbose(), set_skip_whitespace(), set_skip_newline())
            if (skip_ws && skip_nl) { std::ostringstream e4; auto r4 = p.parse(parse_options{}.set_skip_whitespace(false).set_skip_newline(false).set_skip_whitespace().set_skip_newline(), string_buffer(std::string(in)), e4);
                ++checks; if (r4 != r || e4.str() != es.str()) { ++fails; if (first.empty()) first = "set_skip_whitespace() / set_skip_newline() without an argument do not switch the options on"; } }
            parse_options named; named.set_verbose(false).set_skip_whitespace(skip_ws).set_skip_newline(skip_nl);
            parse_options single; single.set_skip_newline(skip_nl); single.set_skip_whitespace(skip_ws);
            std::ostringstream e2, e3; auto r2 = p.parse(named, string_buffer(std::string(in)), e2); auto r3 = p.parse(single, string_buffer(std::string(in)), e3);
            ++checks; if (r2 != r || r3 != r || e2.str() != es.str() || e3.str() != es.str()) { ++fails; if (first.empty()) first = "options given through a named parse_options object (chained / separate setter calls) behave differently from the same options on a temporary: input of " + std::to_string(in.size()) + " bytes, option set " + std::to_string(opt); }
        }
        (run.ok ? accepted : run.lex_error ? lexerr : synerr)++;
        auto fail = [&](const std::string& w) { ++fails; if (first.empty()) { std::string v; for (unsigned char c : in) { if (c >= 0x20 && c < 0x7f && c != '\\' && c != '"') v += char(c); else { char b[8]; std::snprintf(b, sizeof b, "<%02x>", c); v += b; } } first = std::string(opt == 0 ? "" : opt == 1 ? "[skip_newline off] " : "[skip_whitespace off] ") + "input '" + v + "': " + w; } };
        ++checks; if (r.has_value() != run.ok) { fail(std::string("parse ") + (r ? "succeeded" : "failed") + ", expected the opposite; stream: " + es.str()); continue; }
        ++checks; if (es.str() != want) fail("stream '" + es.str() + "' expected '" + want + "'");
    }
    {   // second grammar: term names that are long or contain characters special to formatting; the message must carry the complete documented name
        static constexpr char k40[] = "keywordkeywordkeywordkeywordkeywordkeyword";                              // string term: its name is the string (42 chars)
        static constexpr char up_pat[] = "[A-Z]+";
        static constexpr char dg_pat[] = "[0-9][0-9][0-9][0-9][0-9][0-9][0-9][0-9]x";                           // unnamed regex term: name r_ + pattern (43 chars)
        static constexpr regex_term<up_pat> upper("an_upper_case_word_with_a_descriptive_name_that_is_rather_long_0123456789");
        static constexpr regex_term<dg_pat> digits(0);
        static constexpr nterm<int> root("root");
        static constexpr char us_pat[] = "_+"; static constexpr regex_term<us_pat> unnamed_by_choice("");            // an empty display name is a display name
        static const parser q(root, terms(';', k40, upper, digits, "%s'q%d", unnamed_by_choice), nterms(root), rules(root(';') >= val(1)));
        struct LT { const char* lexeme; std::string name; };
        const LT lts[] = {{k40, k40}, {"AB", "an_upper_case_word_with_a_descriptive_name_that_is_rather_long_0123456789"}, {"12345678x", std::string("r_") + dg_pat}, {"%s'q%d", "%s'q%d"}, {"__", ""}};
        for (const LT& lt : lts) for (int form = 0; form < 3; ++form) {
            std::string in = form == 0 ? std::string(lt.lexeme) : form == 1 ? ";" + std::string(lt.lexeme) : " \n  " + std::string(lt.lexeme);
            std::string want = (form == 0 ? "[1:1]" : form == 1 ? "[1:2]" : "[2:3]") + std::string(" PARSE: Syntax error: Unexpected '") + lt.name + "'\n";
            std::ostringstream es; auto r = q.parse(string_buffer(std::string(in)), es);
            ++cases; ++checks; ++synerr;
            if (r.has_value() || es.str() != want) { ++fails; if (first.empty()) first = "long-name grammar, input '" + in + "': stream '" + es.str() + "' expected '" + want + "'"; }
        }
    }
    std::string esc; for (char c : first) { if (c == '"' || c == '\\') esc += '\\'; if (c == '\n') { esc += "\\n"; continue; } esc += c; }
    std::printf("{\"cases\": %ld, \"checks\": %ld, \"failures\": %ld, \"accepted\": %ld, \"lexical_errors\": %ld, \"syntax_errors\": %ld, \"first_failure\": \"%s\"}\n", cases, checks, fails, accepted, lexerr, synerr, esc.c_str());
    return fails ? 1 : 0;
}
